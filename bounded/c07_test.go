package service

// Bounded stand-in for processSubscribe (C07), which could not be brought within reach of the deductive check.
// Exhaustive over: 1..4 filters per request, each filter from {a, b, a/+, x#y (rejected by the store)}, requested
// QoS 0..2 each, store maximum QoS 0..2. The real processSubscribe runs against a scripted topic store; the SUBACK
// is read back from the real outgoing ring and compared with the expected answer.
// Output protocol (parsed by /verif/tools/bounded.py): BOUNDED-CASES <n>, BOUNDED-NONTRIVIAL <n>,
// BOUNDED-SAMPLE <text>, BOUNDED-VIOLATION <text>.

import (
	"fmt"
	"testing"

	"github.com/mdzio/go-mqtt/message"
	"github.com/mdzio/go-mqtt/sessions"
	"github.com/mdzio/go-mqtt/topics"
)

type boundedStore struct {
	max   byte
	calls []string
}

func (s *boundedStore) Subscribe(topic []byte, qos byte, sub interface{}) (byte, error) {
	s.calls = append(s.calls, fmt.Sprintf("%s@%d", topic, qos))
	for _, c := range topic {
		if c == '#' && len(topic) > 1 {
			return message.QosFailure, fmt.Errorf("rejected")
		}
	}
	if qos > s.max {
		qos = s.max
	}
	return qos, nil
}
func (s *boundedStore) Unsubscribe(topic []byte, sub interface{}) error { return nil }
func (s *boundedStore) Subscribers(topic []byte, qos byte, subs *[]interface{}, qoss *[]byte) error {
	*subs, *qoss = (*subs)[:0], (*qoss)[:0]
	return nil
}
func (s *boundedStore) Retain(msg *message.PublishMessage) error                     { return nil }
func (s *boundedStore) Retained(topic []byte, msgs *[]*message.PublishMessage) error { return nil }
func (s *boundedStore) Close() error                                                 { return nil }

func TestBoundedC07(t *testing.T) {
	store := &boundedStore{}
	topics.Register("bounded-c07", store)
	defer topics.Unregister("bounded-c07")
	mgr, err := topics.NewManager("bounded-c07")
	if err != nil {
		t.Fatal(err)
	}
	filters := []string{"a", "b", "a/+", "x#y"}
	cases, nontrivial, samples := 0, 0, 0
	var rec func(n int, fs []string, qs []byte)
	run := func(fs []string, qs []byte, max byte) {
		cases++
		svc := &service{topicsMgr: mgr}
		svc.out, _ = newBuffer(16384)
		svc.sess = &sessions.Session{}
		cm := message.NewConnectMessage()
		cm.SetClientID([]byte("c"))
		cm.SetVersion(4)
		if err := svc.sess.Init(cm); err != nil {
			t.Fatal(err)
		}
		store.max, store.calls = max, store.calls[:0]
		req := message.NewSubscribeMessage()
		req.SetPacketID(uint16(100 + len(fs)))
		// build the wire packet by hand so that repeated filters stay repeated
		body := []byte{0, byte(100 + len(fs))}
		for i, f := range fs {
			body = append(body, byte(len(f)>>8), byte(len(f)))
			body = append(body, f...)
			body = append(body, qs[i])
		}
		wire := append([]byte{0x82, byte(len(body))}, body...)
		dec := message.NewSubscribeMessage()
		if _, err := dec.Decode(wire); err != nil {
			t.Fatalf("decode of a well-formed SUBSCRIBE failed: %v", err)
		}
		desc := fmt.Sprintf("filters=%v qos=%v max=%d", fs, qs, max)
		perr := svc.processSubscribe(dec)
		// expected
		var want []byte
		rejected := false
		for i, f := range fs {
			if f == "x#y" {
				want = append(want, 0x80)
				rejected = true
			} else if qs[i] > max {
				want = append(want, max)
			} else {
				want = append(want, qs[i])
			}
		}
		if rejected || len(fs) > 1 {
			nontrivial++
		}
		if len(store.calls) != len(fs) {
			fmt.Printf("BOUNDED-VIOLATION %s: the store was asked %d times for %d filters (%v)\n", desc, len(store.calls), len(fs), store.calls)
			t.Fail()
			return
		}
		for i, f := range fs {
			if store.calls[i] != fmt.Sprintf("%s@%d", f, qs[i]) {
				fmt.Printf("BOUNDED-VIOLATION %s: store call %d was %s\n", desc, i, store.calls[i])
				t.Fail()
				return
			}
		}
		n := svc.out.Len()
		if n == 0 {
			fmt.Printf("BOUNDED-VIOLATION %s: no SUBACK written (processSubscribe returned %v)\n", desc, perr)
			t.Fail()
			return
		}
		buf := make([]byte, n)
		svc.out.Read(buf)
		ack := message.NewSubackMessage()
		m, derr := ack.Decode(buf)
		if derr != nil {
			fmt.Printf("BOUNDED-VIOLATION %s: first packet written is not a SUBACK: %v % x\n", desc, derr, buf)
			t.Fail()
			return
		}
		if ack.PacketID() != uint16(100+len(fs)) || string(ack.ReturnCodes()) != string(want) || m != n {
			fmt.Printf("BOUNDED-VIOLATION %s: SUBACK id=%d codes=%v (want id=%d codes=%v), %d of %d bytes\n", desc, ack.PacketID(), ack.ReturnCodes(), 100+len(fs), want, m, n)
			t.Fail()
			return
		}
		if samples < 3 && rejected && len(fs) == 3 {
			samples++
			fmt.Printf("BOUNDED-SAMPLE %s -> SUBACK id=%d codes=%v\n", desc, ack.PacketID(), ack.ReturnCodes())
		}
	}
	rec = func(n int, fs []string, qs []byte) {
		if len(fs) == n {
			for max := byte(0); max <= 2; max++ {
				run(fs, qs, max)
			}
			return
		}
		for _, f := range filters {
			for q := byte(0); q <= 2; q++ {
				rec(n, append(append([]string{}, fs...), f), append(append([]byte{}, qs...), q))
			}
		}
	}
	for n := 1; n <= 4; n++ {
		rec(n, nil, nil)
	}
	fmt.Printf("BOUNDED-CASES %d\nBOUNDED-NONTRIVIAL %d\n", cases, nontrivial)
}
