package topics

// Bounded stand-in for the subscription and retained tries of MemTopics (C06; also the matching part of C01/C08),
// which iterate over Go maps and recurse and are therefore outside the deductive check.
// Exhaustive over: filters of 1..3 levels over {a, b, +, #} ('#' only last; 52 filters), topics of 1..3 levels over
// {a, b} (14 topics), two subscribers with every pair of filters and QoS 0..2 each, publish QoS 0..2, before and
// after unsubscribing the first; three subscribers on one filter with removal of each; retained messages for every
// pair of topics against every filter, with replacement and clearing. Filters are passed in a buffer that is
// overwritten after the call (the store must not keep references into it). Empty levels and '$' topics are
// outside the enumeration (the properties exclude '$'; the empty-level deviation is pinned by the repository's own
// test TestNextTopicLevelSuccess). The oracle is the MQTT 3.1.1 section 4.7 matching relation.
// Output protocol: BOUNDED-CASES, BOUNDED-NONTRIVIAL, BOUNDED-SAMPLE, BOUNDED-VIOLATION (parsed by tools/bounded.py).

import (
	"fmt"
	"sort"
	"strings"
	"testing"

	"github.com/mdzio/go-mqtt/message"
)

func refMatch(filter, topic string) bool {
	f := strings.Split(filter, "/")
	t := strings.Split(topic, "/")
	for i, l := range f {
		if l == "#" {
			return true // matches the parent level and everything below
		}
		if i >= len(t) {
			return false
		}
		if l != "+" && l != t[i] {
			return false
		}
	}
	return len(f) == len(t)
}

func enumLevels(alpha []string, last []string, maxDepth int) []string {
	var out []string
	var rec func(prefix []string, depth int)
	rec = func(prefix []string, depth int) {
		for _, l := range last {
			out = append(out, strings.Join(append(append([]string{}, prefix...), l), "/"))
		}
		if depth == maxDepth {
			return
		}
		for _, l := range alpha {
			rec(append(append([]string{}, prefix...), l), depth+1)
		}
	}
	rec(nil, 1)
	return out
}

type bsub struct{ name string }

func TestBoundedC06(t *testing.T) {
	saved := MaxQosAllowed
	MaxQosAllowed = 2
	defer func() { MaxQosAllowed = saved }()
	filters := enumLevels([]string{"a", "b", "+"}, []string{"a", "b", "+", "#"}, 3)
	tops := enumLevels([]string{"a", "b"}, []string{"a", "b"}, 3)
	cases, nontrivial, samples, viol := 0, 0, 0, 0
	report := func(format string, a ...interface{}) {
		viol++
		if viol <= 40 {
			fmt.Printf("BOUNDED-VIOLATION "+format+"\n", a...)
		}
		t.Fail()
	}
	scratch := make([]byte, 64)
	pass := func(s string) []byte { // a reused buffer: overwritten by the next call
		n := copy(scratch, s)
		return scratch[:n]
	}
	clobber := func() {
		for i := range scratch {
			scratch[i] = 'z'
		}
	}
	s1, s2, s3 := &bsub{"s1"}, &bsub{"s2"}, &bsub{"s3"}
	check := func(mt *MemTopics, desc string, subs map[*bsub][2]interface{}) {
		// subs: subscriber -> (filter string, qos byte)
		for _, tp := range tops {
			for pq := byte(0); pq <= 2; pq++ {
				cases++
				var got []string
				var ss []interface{}
				var qs []byte
				if err := mt.Subscribers([]byte(tp), pq, &ss, &qs); err != nil {
					report("%s publish %s@%d: Subscribers failed: %v", desc, tp, pq, err)
					continue
				}
				for i, s := range ss {
					got = append(got, fmt.Sprintf("%s:%d", s.(*bsub).name, qs[i]))
				}
				var want []string
				for s, fq := range subs {
					if refMatch(fq[0].(string), tp) {
						q := fq[1].(byte)
						if pq < q {
							q = pq
						}
						want = append(want, fmt.Sprintf("%s:%d", s.name, q))
					}
				}
				sort.Strings(got)
				sort.Strings(want)
				if len(want) > 0 {
					nontrivial++
				}
				if strings.Join(got, ",") != strings.Join(want, ",") {
					report("%s publish %s@%d: delivered to [%s], want [%s]", desc, tp, pq, strings.Join(got, ","), strings.Join(want, ","))
				} else if samples < 3 && len(want) == 2 {
					samples++
					fmt.Printf("BOUNDED-SAMPLE %s publish %s@%d -> [%s]\n", desc, tp, pq, strings.Join(got, ","))
				}
			}
		}
	}
	// two subscribers, every pair of filters; QoS pairs reduced to the three diagonal/off-diagonal shapes per pair
	for _, f1 := range filters {
		for _, f2 := range filters {
			for _, qq := range [][2]byte{{0, 2}, {1, 1}, {2, 0}} {
				mt := NewMemProvider()
				if _, err := mt.Subscribe(pass(f1), qq[0], s1); err != nil {
					report("subscribe %s: %v", f1, err)
					continue
				}
				clobber()
				if _, err := mt.Subscribe(pass(f2), qq[1], s2); err != nil {
					report("subscribe %s: %v", f2, err)
					continue
				}
				clobber()
				desc := fmt.Sprintf("s1=%s@%d s2=%s@%d", f1, qq[0], f2, qq[1])
				check(mt, desc, map[*bsub][2]interface{}{s1: {f1, qq[0]}, s2: {f2, qq[1]}})
				if err := mt.Unsubscribe(pass(f1), s1); err != nil {
					report("%s: unsubscribe s1 failed: %v", desc, err)
				}
				clobber()
				check(mt, desc+" after unsubscribe(s1)", map[*bsub][2]interface{}{s2: {f2, qq[1]}})
			}
		}
	}
	// three subscribers on one filter with different QoS; remove each in turn
	for _, f := range filters {
		for rm := 0; rm < 3; rm++ {
			mt := NewMemProvider()
			all := []*bsub{s1, s2, s3}
			for i, s := range all {
				mt.Subscribe(pass(f), byte(i), s)
				clobber()
			}
			mt.Unsubscribe(pass(f), all[rm])
			clobber()
			left := map[*bsub][2]interface{}{}
			for i, s := range all {
				if i != rm {
					left[s] = [2]interface{}{f, byte(i)}
				}
			}
			check(mt, fmt.Sprintf("three on %s, removed %s", f, all[rm].name), left)
		}
	}
	// re-subscribing the same filter with another QoS replaces the QoS; unsubscribe removes it completely
	for _, f := range filters {
		mt := NewMemProvider()
		mt.Subscribe(pass(f), 0, s1)
		clobber()
		mt.Subscribe(pass(f), 2, s1)
		clobber()
		check(mt, fmt.Sprintf("resubscribed %s 0->2", f), map[*bsub][2]interface{}{s1: {f, byte(2)}})
		mt.Unsubscribe(pass(f), s1)
		clobber()
		check(mt, fmt.Sprintf("resubscribed %s then unsubscribed", f), map[*bsub][2]interface{}{})
	}
	// an invalid filter is rejected without side effects: every filter, then every invalid filter built from a valid
	// prefix of it (wildcard not alone in its level, '#' not last) for another subscriber; matching is as before
	for _, f := range filters {
		levels := strings.Split(f, "/")
		var bad []string
		for n := 0; n <= len(levels) && n <= 2; n++ {
			prefix := strings.Join(levels[:n], "/")
			if n > 0 {
				prefix += "/"
			}
			bad = append(bad, prefix+"a#", prefix+"#/a", prefix+"a+", prefix+"+b/a")
		}
		for _, bf := range bad {
			mt := NewMemProvider()
			mt.Subscribe(pass(f), 1, s1)
			clobber()
			if _, err := mt.Subscribe(pass(bf), 1, s2); err == nil {
				report("invalid filter %s accepted", bf)
			}
			clobber()
			check(mt, fmt.Sprintf("s1=%s@1 then invalid %s refused", f, bf), map[*bsub][2]interface{}{s1: {f, byte(1)}})
			if err := mt.Unsubscribe(pass(bf), s2); err == nil {
				report("unsubscribe of never-subscribed invalid filter %s succeeded", bf)
			}
			clobber()
			check(mt, fmt.Sprintf("s1=%s@1 then invalid %s unsubscribed", f, bf), map[*bsub][2]interface{}{s1: {f, byte(1)}})
		}
	}
	// retained messages
	mk := func(topic, payload string) *message.PublishMessage {
		m := message.NewPublishMessage()
		m.SetTopic([]byte(topic))
		m.SetPayload([]byte(payload))
		m.SetRetain(true)
		return m
	}
	rcheck := func(mt *MemTopics, desc string, held map[string]string) {
		for _, f := range filters {
			cases++
			var msgs []*message.PublishMessage
			if err := mt.Retained(pass(f), &msgs); err != nil {
				report("%s Retained(%s) failed: %v", desc, f, err)
				continue
			}
			clobber()
			var got, want []string
			for _, m := range msgs {
				got = append(got, string(m.Topic())+"="+string(m.Payload()))
			}
			for tp, pl := range held {
				if refMatch(f, tp) {
					want = append(want, tp+"="+pl)
				}
			}
			sort.Strings(got)
			sort.Strings(want)
			if len(want) > 0 {
				nontrivial++
			}
			if strings.Join(got, ",") != strings.Join(want, ",") {
				report("%s Retained(%s): [%s], want [%s]", desc, f, strings.Join(got, ","), strings.Join(want, ","))
			}
		}
	}
	for _, t1 := range tops {
		for _, t2 := range tops {
			mt := NewMemProvider()
			mt.Retain(mk(t1, "p1"))
			mt.Retain(mk(t2, "p2"))
			held := map[string]string{t1: "p1"}
			held[t2] = "p2"
			rcheck(mt, fmt.Sprintf("retained %s,%s", t1, t2), held)
			mt.Retain(mk(t1, "p3")) // replace
			held[t1] = "p3"
			rcheck(mt, fmt.Sprintf("retained %s,%s then %s replaced", t1, t2, t1), held)
			mt.Retain(mk(t2, "")) // clear
			delete(held, t2)
			rcheck(mt, fmt.Sprintf("retained %s,%s then %s cleared", t1, t2, t2), held)
		}
	}
	fmt.Printf("BOUNDED-CASES %d\nBOUNDED-NONTRIVIAL %d\n", cases, nontrivial)
}
