package main

// Bit-vector mode (contract flag `arith bv64`): straight-line functions over int64/uint64 values whose point is a bit
// trick (roundUpPowerOfTwo64) are verified with every program value a 64-bit vector and every Go operator its exact
// machine semantics. The contract is the same text that Int-mode callers use; its arithmetic is evaluated in 128-bit
// signed vectors (program values sign- or zero-extended), so the specification itself cannot overflow:
// `result < 2*n` means what it says for n up to 2^62.
//
// Subset: one basic block; BinOp (+ - * & | ^ &^ << >>), UnOp (- ^), Convert between 64-bit integer types, Return.
// Anything else is a binding failure.

import (
	"fmt"
	"go/ast"
	"go/constant"
	"go/token"
	"go/types"
	"os"
	"path/filepath"
	"regexp"
	"strconv"
	"strings"
	"time"

	"golang.org/x/tools/go/ssa"
)

type bvTrans struct {
	eng   *Engine
	fn    *ssa.Function
	ct    *Contract
	vals  map[ssa.Value]string
	items []Item
	errs  []string
	n     int
}

func (b *bvTrans) errorf(f string, a ...interface{}) { b.errs = append(b.errs, fmt.Sprintf(f, a...)) }

func is64(T types.Type) (signed, ok bool) {
	bt, isb := T.Underlying().(*types.Basic)
	if !isb {
		return false, false
	}
	switch bt.Kind() {
	case types.Int64, types.Int:
		return true, true
	case types.Uint64, types.Uint, types.Uintptr:
		return false, true
	}
	return false, false
}

func bvLit(v int64) string { return fmt.Sprintf("#x%016x", uint64(v)) }

func (b *bvTrans) val(v ssa.Value) string {
	if c, ok := v.(*ssa.Const); ok {
		if c.Value == nil || c.Value.Kind() != constant.Int {
			b.errorf("bv64: non-integer constant")
			return bvLit(0)
		}
		if i, exact := constant.Int64Val(c.Value); exact {
			return bvLit(i)
		}
		u, _ := constant.Uint64Val(c.Value)
		return fmt.Sprintf("#x%016x", u)
	}
	if s, ok := b.vals[v]; ok {
		return s
	}
	b.errorf("bv64: value %s outside the subset", v.Name())
	return bvLit(0)
}

func translateBV(eng *Engine, fn *ssa.Function, ct *Contract) *fnTrans {
	b := &bvTrans{eng: eng, fn: fn, ct: ct, vals: map[ssa.Value]string{}}
	name := eng.shortName(fn.String())
	out := &fnTrans{}
	if len(fn.Blocks) != 1 {
		b.errorf("bv64: function has %d basic blocks (only straight-line code)", len(fn.Blocks))
	}
	signedOf := map[string]bool{}
	for _, p := range fn.Params {
		sg, ok := is64(p.Type())
		if !ok {
			b.errorf("bv64: parameter %s is not a 64-bit integer", p.Name())
			continue
		}
		nm := "|bv." + p.Name() + "|"
		b.items = append(b.items, Item{Kind: itDecl, Text: "(declare-const " + nm + " (_ BitVec 64))"})
		b.vals[p] = nm
		signedOf[p.Name()] = sg
	}
	var result string
	resSigned := true
	if len(fn.Blocks) >= 1 {
		for _, ins := range fn.Blocks[0].Instrs {
			switch x := ins.(type) {
			case *ssa.DebugRef:
			case *ssa.BinOp:
				sg, ok := is64(x.X.Type())
				if !ok {
					b.errorf("bv64: operand of %s is not a 64-bit integer", x.Op)
					continue
				}
				l, r := b.val(x.X), b.val(x.Y)
				var t string
				switch x.Op {
				case token.ADD:
					t = "(bvadd " + l + " " + r + ")"
				case token.SUB:
					t = "(bvsub " + l + " " + r + ")"
				case token.MUL:
					t = "(bvmul " + l + " " + r + ")"
				case token.AND:
					t = "(bvand " + l + " " + r + ")"
				case token.OR:
					t = "(bvor " + l + " " + r + ")"
				case token.XOR:
					t = "(bvxor " + l + " " + r + ")"
				case token.AND_NOT:
					t = "(bvand " + l + " (bvnot " + r + "))"
				case token.SHL, token.SHR:
					// Go: a shift count >= 64 gives 0 (or all sign bits); SMT-LIB bvshl/bvlshr/bvashr agree for counts
					// >= width. The count operand must itself be a 64-bit value here.
					if _, ok2 := is64(x.Y.Type()); !ok2 {
						b.errorf("bv64: shift count is not a 64-bit integer")
						continue
					}
					if x.Op == token.SHL {
						t = "(bvshl " + l + " " + r + ")"
					} else if sg {
						t = "(bvashr " + l + " " + r + ")"
					} else {
						t = "(bvlshr " + l + " " + r + ")"
					}
				default:
					b.errorf("bv64: operator %s outside the subset", x.Op)
					continue
				}
				b.n++
				nm := fmt.Sprintf("|bv.t%d|", b.n)
				b.items = append(b.items, Item{Kind: itDecl, Text: "(define-fun " + nm + " () (_ BitVec 64) " + t + ")"})
				b.vals[x] = nm
			case *ssa.UnOp:
				if _, ok := is64(x.X.Type()); !ok {
					b.errorf("bv64: operand of unary %s is not a 64-bit integer", x.Op)
					continue
				}
				v := b.val(x.X)
				var t string
				switch x.Op {
				case token.SUB:
					t = "(bvneg " + v + ")"
				case token.XOR:
					t = "(bvnot " + v + ")"
				default:
					b.errorf("bv64: unary %s outside the subset", x.Op)
					continue
				}
				b.n++
				nm := fmt.Sprintf("|bv.t%d|", b.n)
				b.items = append(b.items, Item{Kind: itDecl, Text: "(define-fun " + nm + " () (_ BitVec 64) " + t + ")"})
				b.vals[x] = nm
			case *ssa.Convert:
				_, ok1 := is64(x.X.Type())
				_, ok2 := is64(x.Type())
				if !ok1 || !ok2 {
					b.errorf("bv64: conversion between non-64-bit types")
					continue
				}
				b.vals[x] = b.val(x.X) // same bits
			case *ssa.Return:
				if len(x.Results) != 1 {
					b.errorf("bv64: function must return exactly one value")
					continue
				}
				sg, ok := is64(x.Results[0].Type())
				if !ok {
					b.errorf("bv64: result is not a 64-bit integer")
					continue
				}
				resSigned = sg
				result = b.val(x.Results[0])
			default:
				b.errorf("bv64: instruction %T outside the subset", ins)
			}
		}
	}
	// the contract, evaluated over 128-bit signed vectors
	ext := func(term string, signed bool) string {
		if signed {
			return "((_ sign_extend 64) " + term + ")"
		}
		return "((_ zero_extend 64) " + term + ")"
	}
	var ev func(e ast.Expr) (string, bool) // term, isBool
	ev = func(e ast.Expr) (string, bool) {
		switch x := e.(type) {
		case *ast.ParenExpr:
			return ev(x.X)
		case *ast.BasicLit:
			if x.Kind == token.INT {
				v, err := strconv.ParseUint(x.Value, 0, 64)
				if err == nil {
					return fmt.Sprintf("#x%032x", v), false
				}
			}
		case *ast.Ident:
			if x.Name == "result" {
				return ext(result, resSigned), false
			}
			for _, p := range fn.Params {
				if p.Name() == x.Name {
					return ext(b.vals[p], signedOf[x.Name]), false
				}
			}
			if x.Name == "true" || x.Name == "false" {
				return x.Name, true
			}
		case *ast.UnaryExpr:
			if x.Op == token.NOT {
				t, _ := ev(x.X)
				return "(not " + t + ")", true
			}
			if x.Op == token.SUB {
				t, _ := ev(x.X)
				return "(bvneg " + t + ")", false
			}
		case *ast.CallExpr:
			if id, ok := x.Fun.(*ast.Ident); ok && id.Name == "pow2" && len(x.Args) == 1 {
				t, _ := ev(x.Args[0])
				one := fmt.Sprintf("#x%032x", 1)
				zero := fmt.Sprintf("#x%032x", 0)
				return "(and (bvsgt " + t + " " + zero + ") (= (bvand " + t + " (bvsub " + t + " " + one + ")) " + zero + "))", true
			}
			if id, ok := x.Fun.(*ast.Ident); ok && id.Name == "implies" && len(x.Args) == 2 {
				a, _ := ev(x.Args[0])
				c, _ := ev(x.Args[1])
				return "(=> " + a + " " + c + ")", true
			}
		case *ast.BinaryExpr:
			l, _ := ev(x.X)
			r, _ := ev(x.Y)
			switch x.Op {
			case token.LAND:
				return "(and " + l + " " + r + ")", true
			case token.LOR:
				return "(or " + l + " " + r + ")", true
			case token.EQL:
				return "(= " + l + " " + r + ")", true
			case token.NEQ:
				return "(not (= " + l + " " + r + "))", true
			case token.LSS:
				return "(bvslt " + l + " " + r + ")", true
			case token.LEQ:
				return "(bvsle " + l + " " + r + ")", true
			case token.GTR:
				return "(bvsgt " + l + " " + r + ")", true
			case token.GEQ:
				return "(bvsge " + l + " " + r + ")", true
			case token.ADD:
				return "(bvadd " + l + " " + r + ")", false
			case token.SUB:
				return "(bvsub " + l + " " + r + ")", false
			case token.MUL:
				return "(bvmul " + l + " " + r + ")", false
			}
		}
		b.errorf("bv64: contract expression %s outside the subset", exprString(e))
		return "true", true
	}
	if result == "" && len(b.errs) == 0 {
		b.errorf("bv64: no return value")
	}
	if len(b.errs) == 0 {
		for _, cl := range ct.Requires {
			t, _ := ev(cl.Expr)
			b.items = append(b.items, Item{Kind: itAssume, Text: t})
		}
		for i, cl := range ct.Ensures {
			label := cl.Label
			if label == "" {
				label = fmt.Sprintf("%d", i+1)
			}
			for pi, pe := range splitConj(cl.Expr) {
				t, _ := ev(pe)
				ob := &Oblig{Name: fmt.Sprintf("%s/post-bv64#%d/%s.%d", name, i, label, pi+1), Kind: "post", Guard: "true", Formula: t, Label: label,
					Desc: "ensures (64-bit machine arithmetic) " + exprString(pe), Fn: name, Tags: cl.Tags, Clause: cl, Part: pe}
				b.items = append(b.items, Item{Kind: itOblig, Ob: ob})
			}
		}
	}
	out.items = b.items
	out.errs = b.errs
	out.retBlocks = []string{"true"}
	out.retPos = []string{""}
	_ = strings.TrimSpace
	return out
}

// ---------- replay of a bit-vector counterexample on the real function ----------

func bvGoExpr(e ast.Expr) string {
	switch x := e.(type) {
	case *ast.ParenExpr:
		return "(" + bvGoExpr(x.X) + ")"
	case *ast.BasicLit:
		return "int64(" + x.Value + ")"
	case *ast.Ident:
		if x.Name == "true" || x.Name == "false" {
			return x.Name
		}
		return "int64(" + x.Name + ")"
	case *ast.UnaryExpr:
		if x.Op == token.NOT {
			return "!(" + bvGoExpr(x.X) + ")"
		}
		return "vsub(0, " + bvGoExpr(x.X) + ")"
	case *ast.CallExpr:
		id, _ := x.Fun.(*ast.Ident)
		if id != nil && id.Name == "pow2" && len(x.Args) == 1 {
			return "vpow2(" + bvGoExpr(x.Args[0]) + ")"
		}
		if id != nil && id.Name == "implies" && len(x.Args) == 2 {
			return "(!(" + bvGoExpr(x.Args[0]) + ") || (" + bvGoExpr(x.Args[1]) + "))"
		}
	case *ast.BinaryExpr:
		l, r := bvGoExpr(x.X), bvGoExpr(x.Y)
		switch x.Op {
		case token.ADD:
			return "vadd(" + l + ", " + r + ")"
		case token.SUB:
			return "vsub(" + l + ", " + r + ")"
		case token.MUL:
			return "vmul(" + l + ", " + r + ")"
		default:
			return "(" + l + " " + x.Op.String() + " " + r + ")"
		}
	}
	return "true"
}

const bvReplayHelpers = `
var vovf bool

func vadd(a, b int64) int64 {
	c := a + b
	if (c > a) != (b > 0) {
		vovf = true
	}
	return c
}
func vsub(a, b int64) int64 {
	c := a - b
	if (c < a) != (b > 0) {
		vovf = true
	}
	return c
}
func vmul(a, b int64) int64 {
	if a == 0 || b == 0 {
		return 0
	}
	c := a * b
	if c/b != a || (a == -1 && b == -9223372036854775808) || (b == -1 && a == -9223372036854775808) {
		vovf = true
	}
	return c
}
func vpow2(x int64) bool { return x > 0 && x&(x-1) == 0 }
`

// bvReplay: asks the solver for the counterexample, then calls the real function on it and re-evaluates the failed
// clause in Go (int64 arithmetic with overflow detection: an overflow in the specification makes the replay
// inconclusive, never a reproduction).
func bvReplay(eng *Engine, prop string, r *Result, dir, name string) (gofile, log string, reproduced bool) {
	fn := eng.funcs[r.fv.bvFn]
	if fn == nil || r.Ob.Part == nil {
		return "", "no replay: function or clause not available", false
	}
	q := buildQuery(eng, "z3", r.fv, r.k, true)
	qf := filepath.Join(dir, prop+"_"+name+".model.smt2")
	os.WriteFile(qf, []byte(q), 0o644)
	defer os.Remove(qf)
	st, out, _ := runSolver("z3new", qf, 30*time.Second)
	if st != "sat" {
		return "", "no model: " + st, false
	}
	var sb strings.Builder
	fmt.Fprintf(&sb, "//go:build verif\n\npackage %s\n\nimport (\n\t\"fmt\"\n\t\"testing\"\n)\n%s\n", fn.Pkg.Pkg.Name(), bvReplayHelpers)
	fmt.Fprintf(&sb, "// Replay of obligation %s (%s); property %s; inputs taken from the solver's counterexample.\nfunc TestVerifReplay(t *testing.T) {\n", r.Ob.Name, r.Ob.Desc, prop)
	var args []string
	for _, p := range fn.Params {
		re := regexp.MustCompile(`\(define-fun \|?bv\.` + regexp.QuoteMeta(p.Name()) + `\|? \(\) \(_ BitVec 64\)\s+#x([0-9a-fA-F]{16})\)`)
		m := re.FindStringSubmatch(out)
		if m == nil {
			return "", "no value for parameter " + p.Name() + " in the model", false
		}
		fmt.Fprintf(&sb, "\t%s := %s(uint64(0x%s))\n", p.Name(), types.TypeString(p.Type(), func(*types.Package) string { return "" }), m[1])
		args = append(args, p.Name())
	}
	fmt.Fprintf(&sb, "\tresult := %s(%s)\n\tfmt.Printf(\"REPLAY-INPUT: %s\\n\", %s)\n\tfmt.Printf(\"REPLAY-RESULT: %%v\\n\", result)\n", fn.Name(), strings.Join(args, ", "), strings.Repeat("%v ", len(args)), strings.Join(args, ", "))
	fmt.Fprintf(&sb, "\tok := %s\n\tif vovf {\n\t\tfmt.Println(\"REPLAY-INCONCLUSIVE: the specification overflows int64 on this input\")\n\t} else if !ok {\n\t\tfmt.Println(\"REPLAY-POST-FALSE\")\n\t} else {\n\t\tfmt.Println(\"REPLAY-POST-TRUE\")\n\t}\n}\n", bvGoExpr(r.Ob.Part))
	gofile = filepath.Join(dir, prop+"_"+name+"_test.go")
	os.WriteFile(gofile, []byte(sb.String()), 0o644)
	o, err := runReplayFile(eng, fn.Pkg.Pkg.Path(), gofile)
	log = "replay file: " + gofile + "\n" + o
	if err != nil {
		log += "\n(replay run: " + err.Error() + ")"
	}
	return gofile, log, strings.Contains(o, "REPLAY-POST-FALSE")
}
