package main

import (
	"sync/atomic"
	"encoding/json"
	"bytes"
	"context"
	"fmt"
	"os"
	"os/exec"
	"path/filepath"
	"strings"
	"sync"
	"time"
)

type Result struct {
	Ob      *Oblig
	Status  string // unsat | sat | unknown | timeout | error
	Solver  string
	Ms      int64
	Output  string
	Query   string // path of the query file (kept on failure)
	Model   string
	reproduced bool
	Answers []string
	fv *funcVC
	k int
}

type funcVC struct {
	Name   string
	Items  []Item
	Errs   []string
	RetReach []string
	RetPos   []string
	Trusted bool
	tr *fnTrans
	bvFn string // bit-vector mode: full name of the function (replay)
}

// buildQuery assembles the SMT text for obligation at item index k.
var modelKeepQuant = false

func buildQuery(eng *Engine, solver string, fv *funcVC, k int, wantModel bool) string {
	var sb strings.Builder
	if wantModel {
		if solver == "cvc5" {
			sb.WriteString("(set-option :produce-models true)\n")
		} else {
			sb.WriteString("(set-option :model true)\n")
		}
	}
	target := fv.Items[k].Ob
	pre := eng.prelude(solver)
	if wantModel && solver != "cvc5" {
		pre = strings.Replace(pre, "(set-option :smt.mbqi false)", "(set-option :smt.mbqi true)", 1)
	}
	sb.WriteString(pre)
	for i := 0; i < k; i++ {
		it := fv.Items[i]
		switch it.Kind {
		case itDecl:
			sb.WriteString(it.Text)
			sb.WriteByte('\n')
		case itAssume:
			txt := it.Text
			if wantModel && !modelKeepQuant && strings.Contains(txt, "(forall ") {
				// model search: replace quantified hypotheses by finitely many instances, drop what remains
				// (a spurious model is caught by the replay)
				txt = definitize(txt)
				if strings.Contains(txt, "(forall ") {
					continue
				}
			}
			sb.WriteString("(assert " + txt + ")\n")
		case itOblig:
			if wantModel && !modelKeepQuant && strings.Contains(it.Ob.Formula, "(forall ") {
				continue
			}
			if target.Kind == "strictslice" && it.Ob.Kind == "slice" && it.Ob.Ins != nil && it.Ob.Ins == target.Ins {
				continue // so that the cap==len witness (a panic) stays available for replay
			}
			if it.Ob.Known == "" {
				sb.WriteString("(assert " + imp(it.Ob.Guard, it.Ob.Formula) + ")\n")
			}
		}
	}
	ob := fv.Items[k].Ob
	sb.WriteString("(assert (not " + imp(ob.Guard, ob.Formula) + "))\n")
	sb.WriteString("(check-sat)\n")
	if wantModel {
		sb.WriteString("(get-model)\n")
	}
	return eng.finishQuery(sb.String())
}

// definitize replaces registered quantified subformulas by their finite instance sets.
func definitize(txt string) string {
	for i := 0; i < 4 && strings.Contains(txt, "(forall "); i++ {
		changed := false
		for qf, fin := range finiteQ {
			if strings.Contains(txt, qf) {
				txt = strings.ReplaceAll(txt, qf, fin)
				changed = true
			}
		}
		if !changed {
			break
		}
	}
	return txt
}

// buildCover: all hypotheses of the function (contracts assumed at calls, invariants, the
// obligations themselves) together with "some return is reached" must NOT be refutable;
// if it is, the contracts are contradictory and every obligation holds vacuously.
func buildCover(eng *Engine, solver string, fv *funcVC) string {
	var sb strings.Builder
	sb.WriteString(eng.prelude(solver))
	for _, it := range fv.Items {
		switch it.Kind {
		case itDecl:
			sb.WriteString(it.Text + "\n")
		case itAssume:
			sb.WriteString("(assert " + it.Text + ")\n")
		case itOblig:
			// obligations are NOT assumed here: an obligation that fails on every path is a defect
			// to be reported, not a contradiction in the contracts
		}
	}
	sb.WriteString("(assert " + or(fv.RetReach...) + ")\n(check-sat)\n")
	return eng.finishQuery(sb.String())
}

// coverEach (diagnostic, -covers): for every return of every function, is it reachable under the assumptions?
// A dead return is legitimate when the code really cannot get there; it is printed for inspection.
func coverEach(eng *Engine, fvs []*funcVC, opt solveOpts) {
	for _, fv := range fvs {
		for i, r := range fv.RetReach {
			var sb strings.Builder
			sb.WriteString(eng.prelude("z3"))
			for _, it := range fv.Items {
				switch it.Kind {
				case itDecl:
					sb.WriteString(it.Text + "\n")
				case itAssume:
					sb.WriteString("(assert " + it.Text + ")\n")
				}
			}
			sb.WriteString("(assert " + r + ")\n(check-sat)\n")
			file := filepath.Join(opt.dir, fmt.Sprintf("covereach_%d.smt2", i))
			os.WriteFile(file, []byte(eng.finishQuery(sb.String())), 0o644)
			st, _, _ := runSolver("z3new", file, 5*time.Second)
			pos := ""
			if i < len(fv.RetPos) {
				pos = fv.RetPos[i]
			}
			fmt.Printf("RETURN %s %s: %s\n", fv.Name, pos, map[string]string{"unsat": "DEAD (unreachable under the assumptions)", "sat": "reachable", "unknown": "not refuted", "timeout": "not refuted"}[st])
		}
	}
}

// coverAll runs the vacuity check for every function; returns the names of vacuous ones.
func coverAll(eng *Engine, fvs []*funcVC, opt solveOpts) (vacuous []string, checked int) {
	var mu sync.Mutex
	var wg sync.WaitGroup
	ch := make(chan *funcVC)
	for w := 0; w < opt.workers*2; w++ {
		wg.Add(1)
		go func() {
			defer wg.Done()
			for fv := range ch {
				if len(fv.RetReach) == 0 {
					continue
				}
				file := filepath.Join(opt.dir, "cover_"+strings.NewReplacer("/", "_", "(", "", ")", "", "*", "").Replace(fv.Name)+".smt2")
				os.WriteFile(file, []byte(buildCover(eng, "z3", fv)), 0o644)
				st, _, _ := runSolver("z3new", file, 5*time.Second)
				mu.Lock()
				checked++
				if st == "unsat" {
					vacuous = append(vacuous, fv.Name)
				}
				mu.Unlock()
				if !opt.keep {
					os.Remove(file)
				}
			}
		}()
	}
	for _, fv := range fvs {
		ch <- fv
	}
	close(ch)
	wg.Wait()
	return
}

var solverCmd = map[string][]string{
	"z3new": {"z3-new", "-smt2"},
	"z3":    {"z3", "-smt2"},
	"cvc5":  {"cvc5", "--lang=smt2"},
	"z3cs":  {"z3-new", "-smt2", "smt.case_split=3"},
	"z3qi":  {"z3-new", "-smt2", "smt.qi.eager_threshold=3"},
}

func runSolver(solver, file string, timeout time.Duration) (status, out string, ms int64) {
	return runSolverCtx(context.Background(), solver, file, timeout)
}

// runSolverCtx: as runSolver; the process is killed when parent is cancelled (a portfolio member whose answer is no
// longer needed because another member has proved the obligation). A cancelled run reports "timeout".
func runSolverCtx(parent context.Context, solver, file string, timeout time.Duration) (status, out string, ms int64) {
	args := append([]string{}, solverCmd[solver][1:]...)
	switch solver {
	case "z3new", "z3", "z3cs", "z3qi":
		args = append(args, fmt.Sprintf("-T:%d", int(timeout.Seconds())+1))
	case "cvc5":
		args = append(args, fmt.Sprintf("--tlimit=%d", timeout.Milliseconds()))
	}
	args = append(args, file)
	ctx, cancel := context.WithTimeout(parent, timeout+2*time.Second)
	defer cancel()
	cmd := exec.CommandContext(ctx, solverCmd[solver][0], args...)
	var buf bytes.Buffer
	cmd.Stdout = &buf
	cmd.Stderr = &buf
	start := time.Now()
	cmd.Run()
	ms = time.Since(start).Milliseconds()
	out = buf.String()
	first := strings.TrimSpace(strings.SplitN(out, "\n", 2)[0])
	switch {
	case first == "unsat":
		status = "unsat"
	case first == "sat":
		status = "sat"
	case first == "unknown":
		status = "unknown"
	case strings.Contains(out, "timeout") || ctx.Err() != nil:
		status = "timeout"
	default:
		status = "error"
	}
	return
}

type solveOpts struct {
	timeout  time.Duration
	workers  int
	dir      string
	solvers  []string
	allAgree bool // thorough: every solver must answer unsat (or at least not sat)
	keep     bool
	only     string
	noInc    bool
}

// incremental pre-pass: one z3 process per chunk of obligations of a function, push/pop per
// obligation, short per-query limit. Whatever is not proved here goes to the per-obligation portfolio.
const incChunk = 25

func buildIncremental(eng *Engine, fv *funcVC, lo, hi int, ms int) (string, []int) {
	var sb strings.Builder
	sb.WriteString(eng.prelude("z3"))
	fmt.Fprintf(&sb, "(set-option :timeout %d)\n", ms)
	var idx []int
	nob := 0
	for k, it := range fv.Items {
		switch it.Kind {
		case itDecl:
			sb.WriteString(it.Text + "\n")
		case itAssume:
			sb.WriteString("(assert " + it.Text + ")\n")
		case itOblig:
			if nob >= lo && nob < hi {
				fmt.Fprintf(&sb, "(push 1)\n(assert (not %s))\n(echo \"@ob %d\")\n(check-sat)\n(echo \"@end %d\")\n(pop 1)\n", imp(it.Ob.Guard, it.Ob.Formula), k, k)
				idx = append(idx, k)
			}
			nob++
			if nob >= hi {
				return eng.finishQuery(sb.String()), idx
			}
			if it.Ob.Known == "" {
				sb.WriteString("(assert " + imp(it.Ob.Guard, it.Ob.Formula) + ")\n")
			}
		}
	}
	return eng.finishQuery(sb.String()), idx
}

func solveIncremental(eng *Engine, fvs []*funcVC, opt solveOpts) map[*Oblig]int64 {
	type chunk struct {
		fv     *funcVC
		lo, hi int
	}
	var chunks []chunk
	for _, fv := range fvs {
		n := 0
		for _, it := range fv.Items {
			if it.Kind == itOblig {
				n++
			}
		}
		for lo := 0; lo < n; lo += incChunk {
			hi := lo + incChunk
			if hi > n {
				hi = n
			}
			chunks = append(chunks, chunk{fv, lo, hi})
		}
	}
	proved := map[*Oblig]int64{}
	var mu sync.Mutex
	var wg sync.WaitGroup
	ch := make(chan int)
	for w := 0; w < opt.workers*2; w++ {
		wg.Add(1)
		go func() {
			defer wg.Done()
			for ci := range ch {
				c := chunks[ci]
				qs, idx := buildIncremental(eng, c.fv, c.lo, c.hi, 800)
				file := filepath.Join(opt.dir, fmt.Sprintf("inc%05d.smt2", ci))
				os.WriteFile(file, []byte(qs), 0o644)
				start := time.Now()
				ctx, cancel := context.WithTimeout(context.Background(), time.Duration(len(idx))*2*time.Second+10*time.Second)
				cmd := exec.CommandContext(ctx, "z3-new", "-smt2", file)
				var buf bytes.Buffer
				cmd.Stdout = &buf
				cmd.Run()
				cancel()
				per := time.Since(start).Milliseconds() / int64(len(idx)+1)
				// an answer counts only if the solver printed exactly "unsat" between the markers of that obligation
				// (robust against error messages, warnings and truncated output)
				lines := strings.Split(buf.String(), "\n")
				answers := map[int]string{}
				for li := 0; li+2 < len(lines); li++ {
					var k1, k2 int
					if n, _ := fmt.Sscanf(strings.TrimSpace(lines[li]), "@ob %d", &k1); n == 1 {
						if m, _ := fmt.Sscanf(strings.TrimSpace(lines[li+2]), "@end %d", &k2); m == 1 && k1 == k2 {
							answers[k1] = strings.TrimSpace(lines[li+1])
						}
					}
				}
				mu.Lock()
				for _, k := range idx {
					if answers[k] == "unsat" {
						proved[c.fv.Items[k].Ob] = per
					}
				}
				mu.Unlock()
				if !opt.keep {
					os.Remove(file)
				}
			}
		}()
	}
	for i := range chunks {
		ch <- i
	}
	close(ch)
	wg.Wait()
	return proved
}

func solveAll(eng *Engine, fvs []*funcVC, opt solveOpts) []*Result {
	type job struct {
		fv *funcVC
		k  int
	}
	var jobs []job
	for _, fv := range fvs {
		for k, it := range fv.Items {
			if it.Kind == itOblig {
				if opt.only != "" && !strings.Contains(it.Ob.Name, opt.only) {
					continue
				}
				jobs = append(jobs, job{fv, k})
			}
		}
	}
	results := make([]*Result, len(jobs))
	var pre map[*Oblig]int64
	if opt.only == "" && !opt.allAgree && !opt.noInc {
		pre = solveIncremental(eng, fvs, opt)
	}
	var wg sync.WaitGroup
	ch := make(chan int)
	for w := 0; w < opt.workers; w++ {
		wg.Add(1)
		go func() {
			defer wg.Done()
			for i := range ch {
				j := jobs[i]
				if ms, ok := pre[j.fv.Items[j.k].Ob]; ok {
					results[i] = &Result{Ob: j.fv.Items[j.k].Ob, fv: j.fv, k: j.k, Status: "unsat", Solver: "z3new-incremental", Ms: ms}
					continue
				}
				results[i] = solveOne(eng, j.fv, j.k, i, opt)
			}
		}()
	}
	for i := range jobs {
		ch <- i
	}
	close(ch)
	wg.Wait()
	return results
}

func solveOne(eng *Engine, fv *funcVC, k, id int, opt solveOpts) *Result {
	ob := fv.Items[k].Ob
	res := &Result{Ob: ob, fv: fv, k: k}
	base := filepath.Join(opt.dir, fmt.Sprintf("q%05d", id))
	files := map[string]string{}
	for _, s := range opt.solvers {
		flavor := "z3"
		if s == "cvc5" {
			flavor = "cvc5"
		}
		files[s] = base + "." + s + ".smt2"
		os.WriteFile(files[s], []byte(buildQuery(eng, flavor, fv, k, false)), 0o644)
	}
	done := func(status, solver string, ms int64) *Result {
		res.Status, res.Solver, res.Ms = status, solver, ms
		if !opt.keep {
			cleanup(base)
		}
		return res
	}
	start := time.Now()
	if fv.Items[k].Ob.Known != "" {
		// an obligation recorded as a known finding is expected to fail: one short attempt only
		// (callers never get to assume it; if it discharges the report says so)
		st, out, _ := runSolver("z3new", files["z3new"], 5*time.Second)
		if st == "unsat" {
			return done("unsat", "z3new", time.Since(start).Milliseconds())
		}
		res.Status, res.Output, res.Query = st, out, files["z3new"]
		res.Ms = time.Since(start).Milliseconds()
		return res
	}
	// Once several obligations have failed the verdict is settled: the remaining ones get one short attempt each
	// (a failing run must not take many times longer than a passing one).
	hurry := atomic.LoadInt32(&failedSoFar) >= 3
	defer func() {
		if res.Status != "unsat" && res.Status != "not-attempted" {
			atomic.AddInt32(&failedSoFar, 1)
		}
	}()
	if hurry && !opt.allAgree {
		type a0 struct{ s, st, out string }
		c0 := make(chan a0, 2)
		for _, s := range []string{"z3new", "cvc5"} {
			go func(s string) {
				st, out, _ := runSolver(s, files[s], 10*time.Second)
				c0 <- a0{s, st, out}
			}(s)
		}
		for i := 0; i < 2; i++ {
			a := <-c0
			if a.st == "unsat" {
				return done("unsat", a.s, time.Since(start).Milliseconds())
			}
			if res.Status == "" || a.st == "sat" {
				res.Status, res.Output, res.Query = a.st, a.out, files[a.s]
			}
		}
		res.Ms = time.Since(start).Milliseconds()
		if res.Status != "sat" {
			res.Status = "not-attempted" // undecided, and not reported as a violation of its own
		}
		return res
	}
	if !opt.allAgree {
		// stage 1: the fastest solver alone, briefly
		short := opt.timeout
		type a1 struct{ s, st, out string }
		c1 := make(chan a1, 5)
		first := []string{opt.solvers[0]}
		for _, s := range opt.solvers {
			if s == "cvc5" && opt.solvers[0] != "cvc5" {
				first = append(first, s)
			}
		}
		if opt.solvers[0] == "z3new" {
			first = append(first, "z3qi")
			files["z3qi"] = files["z3new"]
		}
		// speed hint (solver_hints.json, committed; never affects the verdict): the configuration that proved this
		// obligation last time starts at once instead of after the first stage has timed out
		if h := solverHints()[ob.Name]; h != "" {
			have := false
			for _, s := range first {
				if s == h {
					have = true
				}
			}
			if _, known := solverCmd[h]; known && !have {
				if h == "z3cs" || h == "z3qi" {
					files[h] = files["z3new"]
				}
				if files[h] != "" {
					first = append(first, h)
				}
			}
		}
		ctx1, cancel1 := context.WithCancel(context.Background())
		defer cancel1()
		for _, s := range first {
			go func(s string) {
				st, out, _ := runSolverCtx(ctx1, s, files[s], short)
				c1 <- a1{s, st, out}
			}(s)
		}
		for range first {
			a := <-c1
			if a.st == "unsat" {
				cancel1() // the other members' answers are no longer needed
				return done("unsat", a.s, time.Since(start).Milliseconds())
			}
			if res.Status == "" || a.st == "sat" {
				res.Status, res.Output, res.Query = a.st, a.out, files[a.s]
			}
		}
	}
	// stage 2: all solvers in parallel
	type ans struct {
		s, st, out string
	}
	stage2 := opt.solvers
	if !opt.allAgree {
		// the quick tier already ran z3new, cvc5 and z3qi: only what is new
		stage2 = []string{"z3", "z3cs"}
		files["z3cs"] = files["z3new"]
	}
	ch := make(chan ans, len(stage2))
	ctx2, cancel2 := context.WithCancel(context.Background())
	defer cancel2()
	for _, s := range stage2 {
		go func(s string) {
			st, out, _ := runSolverCtx(ctx2, s, files[s], opt.timeout)
			ch <- ans{s, st, out}
		}(s)
	}
	proved := ""
	sawSat := res.Status == "sat"
	var answers []string
	for range stage2 {
		a := <-ch
		answers = append(answers, a.s+"="+a.st)
		if a.st == "unsat" && proved == "" {
			proved = a.s
			if !opt.allAgree {
				cancel2()
				break
			}
		}
		if a.st == "sat" {
			sawSat = true
			res.Output, res.Query = a.out, files[a.s]
		}
		if res.Status == "" || a.st == "sat" {
			res.Status, res.Output, res.Query = a.st, a.out, files[a.s]
		}
	}
	res.Answers = answers
	if proved != "" && !sawSat {
		return done("unsat", proved, time.Since(start).Milliseconds())
	}
	if !sawSat && res.Status == "timeout" {
		// last resort before giving up: a different case-split heuristic and a longer limit
		files["z3cs"] = files["z3new"]
		type a3 struct{ s, st string }
		c3 := make(chan a3, 2)
		files["z3qi"] = files["z3new"]
		ctx3, cancel3 := context.WithCancel(context.Background())
		defer cancel3()
		for _, s := range []string{"z3qi", "cvc5"} {
			go func(s string) {
				st, _, _ := runSolverCtx(ctx3, s, files[s], 3*opt.timeout)
				c3 <- a3{s, st}
			}(s)
		}
		for i := 0; i < 2; i++ {
			a := <-c3
			if a.st == "unsat" {
				cancel3()
				return done("unsat", a.s+"(slow)", time.Since(start).Milliseconds())
			}
		}
	}
	res.Ms = time.Since(start).Milliseconds()
	// model search (quantified hypotheses replaced by finite instance sets; validated by replay)
	mfile := base + ".model.smt2"
	os.WriteFile(mfile, []byte(buildQuery(eng, "z3", fv, k, true)), 0o644)
	st, out, _ := runSolver("z3new", mfile, opt.timeout)
	if st == "sat" {
		res.Status = "sat"
		res.Model = out
		res.Query = mfile
	}
	// (an "unsat" here proves nothing: replacing a quantified hypothesis in a negative position by finitely many
	// instances strengthens it, so the model query is not a weakening of the original one)
	return res
}

var failedSoFar int32

var hintsOnce sync.Once
var hintsMap map[string]string

// solverHints: obligation name -> solver configuration that discharged it when the hints were recorded.
func solverHints() map[string]string {
	hintsOnce.Do(func() {
		hintsMap = map[string]string{}
		if data, err := os.ReadFile("/verif/solver_hints.json"); err == nil {
			json.Unmarshal(data, &hintsMap)
		}
	})
	return hintsMap
}

func cleanup(base string) {
	m, _ := filepath.Glob(base + ".*")
	for _, f := range m {
		os.Remove(f)
	}
}
