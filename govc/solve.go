package main

import (
	"bytes"
	"context"
	"fmt"
	"os"
	"os/exec"
	"path/filepath"
	"strings"
	"sync"
	"time"
)

type Result struct {
	Ob      *Oblig
	Status  string // unsat | sat | unknown | timeout | error
	Solver  string
	Ms      int64
	Output  string
	Query   string // path of the query file (kept on failure)
	Model   string
	reproduced bool
	fv *funcVC
	k int
}

type funcVC struct {
	Name   string
	Items  []Item
	Errs   []string
	RetReach []string
	Trusted bool
	tr *fnTrans
}

// buildQuery assembles the SMT text for obligation at item index k.
func buildQuery(eng *Engine, solver string, fv *funcVC, k int, wantModel bool) string {
	var sb strings.Builder
	if wantModel {
		if solver == "cvc5" {
			sb.WriteString("(set-option :produce-models true)\n")
		} else {
			sb.WriteString("(set-option :model true)\n")
		}
	}
	target := fv.Items[k].Ob
	pre := eng.prelude(solver)
	if wantModel && solver != "cvc5" {
		pre = strings.Replace(pre, "(set-option :smt.mbqi false)", "(set-option :smt.mbqi true)", 1)
	}
	sb.WriteString(pre)
	for i := 0; i < k; i++ {
		it := fv.Items[i]
		switch it.Kind {
		case itDecl:
			sb.WriteString(it.Text)
			sb.WriteByte('\n')
		case itAssume:
			if wantModel && strings.Contains(it.Text, "(forall ") {
				// model search: drop quantified hypotheses (a spurious model is caught by the replay)
				continue
			}
			sb.WriteString("(assert " + it.Text + ")\n")
		case itOblig:
			if wantModel && strings.Contains(it.Ob.Formula, "(forall ") {
				continue
			}
			if target.Kind == "strictslice" && it.Ob.Kind == "slice" && it.Ob.Ins != nil && it.Ob.Ins == target.Ins {
				continue // so that the cap==len witness (a panic) stays available for replay
			}
			if it.Ob.Known == "" {
				sb.WriteString("(assert " + imp(it.Ob.Guard, it.Ob.Formula) + ")\n")
			}
		}
	}
	ob := fv.Items[k].Ob
	sb.WriteString("(assert (not " + imp(ob.Guard, ob.Formula) + "))\n")
	sb.WriteString("(check-sat)\n")
	if wantModel {
		sb.WriteString("(get-model)\n")
	}
	return eng.finishQuery(sb.String())
}

func buildCover(eng *Engine, solver string, fv *funcVC) string {
	var sb strings.Builder
	sb.WriteString(eng.prelude(solver))
	for _, it := range fv.Items {
		switch it.Kind {
		case itDecl:
			sb.WriteString(it.Text + "\n")
		case itAssume:
			sb.WriteString("(assert " + it.Text + ")\n")
		case itOblig:
			if it.Ob.Known == "" {
				sb.WriteString("(assert " + imp(it.Ob.Guard, it.Ob.Formula) + ")\n")
			}
		}
	}
	sb.WriteString("(assert " + or(fv.RetReach...) + ")\n(check-sat)\n")
	return eng.finishQuery(sb.String())
}

var solverCmd = map[string][]string{
	"z3new": {"z3-new", "-smt2"},
	"z3":    {"z3", "-smt2"},
	"cvc5":  {"cvc5", "--lang=smt2"},
}

func runSolver(solver, file string, timeout time.Duration) (status, out string, ms int64) {
	args := append([]string{}, solverCmd[solver][1:]...)
	switch solver {
	case "z3new", "z3":
		args = append(args, fmt.Sprintf("-T:%d", int(timeout.Seconds())+1))
	case "cvc5":
		args = append(args, fmt.Sprintf("--tlimit=%d", timeout.Milliseconds()))
	}
	args = append(args, file)
	ctx, cancel := context.WithTimeout(context.Background(), timeout+2*time.Second)
	defer cancel()
	cmd := exec.CommandContext(ctx, solverCmd[solver][0], args...)
	var buf bytes.Buffer
	cmd.Stdout = &buf
	cmd.Stderr = &buf
	start := time.Now()
	cmd.Run()
	ms = time.Since(start).Milliseconds()
	out = buf.String()
	first := strings.TrimSpace(strings.SplitN(out, "\n", 2)[0])
	switch {
	case first == "unsat":
		status = "unsat"
	case first == "sat":
		status = "sat"
	case first == "unknown":
		status = "unknown"
	case strings.Contains(out, "timeout") || ctx.Err() != nil:
		status = "timeout"
	default:
		status = "error"
	}
	return
}

type solveOpts struct {
	timeout  time.Duration
	workers  int
	dir      string
	solvers  []string
	allAgree bool // thorough: every solver must answer unsat (or at least not sat)
	keep     bool
	only     string
}

func solveAll(eng *Engine, fvs []*funcVC, opt solveOpts) []*Result {
	type job struct {
		fv *funcVC
		k  int
	}
	var jobs []job
	for _, fv := range fvs {
		for k, it := range fv.Items {
			if it.Kind == itOblig {
				if opt.only != "" && !strings.Contains(it.Ob.Name, opt.only) {
					continue
				}
				jobs = append(jobs, job{fv, k})
			}
		}
	}
	results := make([]*Result, len(jobs))
	var wg sync.WaitGroup
	ch := make(chan int)
	for w := 0; w < opt.workers; w++ {
		wg.Add(1)
		go func() {
			defer wg.Done()
			for i := range ch {
				j := jobs[i]
				results[i] = solveOne(eng, j.fv, j.k, i, opt)
			}
		}()
	}
	for i := range jobs {
		ch <- i
	}
	close(ch)
	wg.Wait()
	return results
}

func solveOne(eng *Engine, fv *funcVC, k, id int, opt solveOpts) *Result {
	ob := fv.Items[k].Ob
	res := &Result{Ob: ob, fv: fv, k: k}
	base := filepath.Join(opt.dir, fmt.Sprintf("q%05d", id))
	var total int64
	for si, s := range opt.solvers {
		flavor := "z3"
		if s == "cvc5" {
			flavor = "cvc5"
		}
		file := base + "." + s + ".smt2"
		os.WriteFile(file, []byte(buildQuery(eng, flavor, fv, k, false)), 0o644)
		to := opt.timeout
		if si > 0 && !opt.allAgree {
			to = opt.timeout
		}
		st, out, ms := runSolver(s, file, to)
		total += ms
		if st == "unsat" {
			if !opt.allAgree || si == len(opt.solvers)-1 {
				res.Status, res.Solver, res.Ms = "unsat", s, total
				if !opt.keep {
					cleanup(base)
				}
				return res
			}
			if res.Solver == "" {
				res.Solver = s
			}
			continue
		}
		if opt.allAgree && st != "sat" && res.Solver != "" {
			// another solver already proved it and this one merely gave up: acceptable
			continue
		}
		res.Status, res.Output, res.Query = st, out, file
		if st == "sat" {
			res.Solver = s
			break
		}
	}
	if res.Status == "" || (opt.allAgree && res.Status != "sat" && res.Solver != "") {
		res.Status = "unsat"
		res.Ms = total
		if !opt.keep {
			cleanup(base)
		}
		return res
	}
	res.Ms = total
	// try to obtain a model (MBQI on)
	mfile := base + ".model.smt2"
	os.WriteFile(mfile, []byte(buildQuery(eng, "z3", fv, k, true)), 0o644)
	st, out, _ := runSolver("z3new", mfile, opt.timeout)
	if st == "sat" {
		res.Status = "sat"
		res.Model = out
		res.Query = mfile
	} else if st == "unsat" {
		// MBQI found a proof the pattern-based run missed
		res.Status, res.Solver = "unsat", "z3new+mbqi"
		if !opt.keep {
			cleanup(base)
		}
	}
	return res
}

func cleanup(base string) {
	m, _ := filepath.Glob(base + ".*")
	for _, f := range m {
		os.Remove(f)
	}
}
