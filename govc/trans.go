package main

// SSA function -> verification-condition items. See design/ENCODING.md.

import (
	"os"
	"runtime/debug"
	"fmt"
	"go/ast"
	"go/constant"
	"go/token"
	"go/types"
	"sort"
	"strings"

	"golang.org/x/tools/go/ssa"
)

type ItemKind int

const (
	itDecl ItemKind = iota
	itAssume
	itOblig
)

type Oblig struct {
	Name    string
	Kind    string
	Guard   string
	Formula string
	Known   string
	Tags    []string
	Label   string
	Pos     string
	Desc    string
	Fn      string
	Ins     ssa.Instruction
	Clause  *Clause
	Part    ast.Expr
}

type Item struct {
	Kind ItemKind
	Text string // decl text or assumption formula
	Ob   *Oblig
}

type LKind int

const (
	lvObj   LKind = iota // pointer to a struct object (fields live in F heaps)
	lvField              // leaf field of a struct object
	lvElem               // element of an array (possibly a path into a struct element)
	lvCell               // cell holding a non-struct value (Alloc, globals, *T params)
	lvArr                // pointer to a Go array (varargs temporaries): Ref = array id
)

type LVal struct {
	Kind  LKind
	Ref   string
	Idx   string
	S     types.Type // struct type (lvObj, lvField)
	Field string     // lvField: field name
	Path  string     // lvElem: component path prefix inside the element
	ElemT types.Type // lvElem/lvArr: array element type
	T     types.Type // type of the pointee
}

type State struct {
	heaps map[string]string
	defers []*ssa.Defer
	// mtop: for each heap, the allocation high-water mark at the time of its last modification
	// (absent: unmodified since function entry). References read from a heap are <= that mark.
	mtop map[string]string
}

func (s *State) clone() *State {
	n := &State{heaps: map[string]string{}, mtop: map[string]string{}}
	for k, v := range s.heaps {
		n.heaps[k] = v
	}
	for k, v := range s.mtop {
		n.mtop[k] = v
	}
	n.defers = append([]*ssa.Defer(nil), s.defers...)
	return n
}

type loopInfo struct {
	header   *ssa.BasicBlock
	ordinal  int
	body     map[*ssa.BasicBlock]bool
	headSt   *State
	variant  string
	headVars map[string]Val
}

type fnTrans struct {
	iters map[*ssa.Range]*mapIter // map iterations (range over a map)
	eng   *Engine
	fn    *ssa.Function
	ct    *Contract
	fname string
	items []Item
	nfr   int
	vals  map[ssa.Value]Val
	lvals map[ssa.Value]*LVal
	st    *State
	entry *State
	reach map[*ssa.BasicBlock]string
	edges map[[2]int]string
	outSt map[*ssa.BasicBlock]*State
	cur   *ssa.BasicBlock
	loops map[*ssa.BasicBlock]*loopInfo
	ordc  map[string]int
	ords  map[ssa.Instruction]map[string]int
	errs  []string
	params map[string]Val
	paramLV map[string]*LVal
	locals    []localBinding
	privAlloc map[*ssa.Alloc]bool
	atcallHit map[string]bool
	retBlocks []string
	retPos    []string
	declared map[string]bool
	strict bool
	freeVarVals map[string]Val
	cse map[string]string
	loopMods map[string]bool
}

func (t *fnTrans) errorf(format string, a ...interface{}) {
	t.errs = append(t.errs, fmt.Sprintf(format, a...))
}

func (t *fnTrans) fresh(prefix string) string {
	t.nfr++
	return fmt.Sprintf("%s!%d", prefix, t.nfr)
}

func (t *fnTrans) decl(name, sort string) string {
	t.items = append(t.items, Item{Kind: itDecl, Text: fmt.Sprintf("(declare-const %s %s)", q(name), sort)})
	return q(name)
}

func (t *fnTrans) freshConst(prefix, sort string) string {
	return t.decl(t.fresh(prefix), sort)
}

func (t *fnTrans) guard() string {
	if t.cur == nil {
		return "true"
	}
	return t.reach[t.cur]
}

func (t *fnTrans) assume(f string) {
	if f == "true" {
		return
	}
	t.items = append(t.items, Item{Kind: itAssume, Text: imp(t.guard(), f)})
}
func (t *fnTrans) assumeRaw(f string) {
	if f == "true" {
		return
	}
	t.items = append(t.items, Item{Kind: itAssume, Text: f})
}

func (t *fnTrans) oblig(kind string, ins ssa.Instruction, label string, f string, desc string) *Oblig {
	return t.obligG(kind, ins, label, t.guard(), f, desc)
}

func (t *fnTrans) obligG(kind string, ins ssa.Instruction, label, guard, f, desc string) *Oblig {
	if f == "true" {
		return nil
	}
	ord := 0
	if ins != nil {
		if m := t.ords[ins]; m != nil {
			ord = m[kind]
			m[kind]++
		}
	} else {
		ord = t.ordc[kind+"/"+label]
		t.ordc[kind+"/"+label]++
	}
	name := fmt.Sprintf("%s/%s#%d", t.fname, kind, ord)
	if label != "" {
		name += "/" + label
	}
	pos := ""
	if ins != nil && ins.Pos().IsValid() {
		p := t.eng.fset.Position(ins.Pos())
		pos = fmt.Sprintf("%s:%d", shortFile(p.Filename), p.Line)
	}
	ob := &Oblig{Name: name, Kind: kind, Guard: guard, Formula: f, Label: label, Pos: pos, Desc: desc, Fn: t.fname, Ins: ins}
	t.items = append(t.items, Item{Kind: itOblig, Ob: ob})
	return ob
}

func shortFile(f string) string {
	if i := strings.Index(f, "/repo/"); i >= 0 {
		return f[i+6:]
	}
	return f
}

// ---------- heaps ----------

func (t *fnTrans) heapGet(st *State, name, sort string) string {
	if v, ok := st.heaps[name]; ok {
		return v
	}
	n0 := name + "@0"
	t.eng.heapSort[name] = sort
	if !t.declared[n0] {
		t.declared[n0] = true
		t.decl(n0, sort)
		t.rangeAxiom(name, q(n0), sort)
		if strings.HasSuffix(name, ".len") {
			base := strings.TrimSuffix(name, ".len")
			var sib [4]string
			for i, part := range []string{".arr", ".off", ".len", ".cap"} {
				sn := base + part + "@0"
				t.eng.heapSort[base+part] = sort
				if !t.declared[sn] {
					t.declared[sn] = true
					t.decl(sn, sort)
					t.rangeAxiom(base+part, q(sn), sort)
				}
				sib[i] = q(sn)
			}
			t.sliceGroupAxiom(sib, sort)
		}
	}
	return q(n0)
}

func (t *fnTrans) heapSet(st *State, name, sort, term string) {
	// give the new version a name to keep terms small
	n := t.freshConst(name+"@", sort)
	t.assumeRaw(eq(n, term))
	st.heaps[name] = n
	t.markMod(st, name)
}

func (t *fnTrans) markMod(st *State, name string) {
	if name == "$top" {
		return
	}
	if st.mtop == nil {
		st.mtop = map[string]string{}
	}
	st.mtop[name] = t.top(st)
}

// readTop: upper bound for references read from the given heaps in state st.
func (t *fnTrans) readTop(st *State, names []string) string {
	res := ""
	for i, n := range names {
		v, ok := st.mtop[n]
		if !ok {
			v = t.top(t.entry)
		}
		if i == 0 {
			res = v
		} else if v != res {
			return t.top(st)
		}
	}
	if res == "" {
		return t.top(st)
	}
	return res
}

// lvalHeaps lists the heaps a load through lv reads.
func lvalHeaps(lv *LVal) []string {
	var out []string
	switch lv.Kind {
	case lvField:
		for _, c := range flatten(lv.T) {
			out = append(out, fieldHeap(lv.S, lv.Field, c.Suffix))
		}
	case lvElem:
		for _, c := range flatten(lv.T) {
			out = append(out, elemHeap(lv.ElemT, lv.Path+c.Suffix))
		}
	case lvCell:
		for _, c := range flatten(lv.T) {
			out = append(out, cellHeap(lv.T, c.Suffix))
		}
	}
	return out
}

func (t *fnTrans) valueFactsTop(top string, v Val) string {
	fs := []string{rangeFact(v.T, v.C)}
	for _, i := range refComps(v.T) {
		fs = append(fs, le(v.C[i], top))
	}
	return and(fs...)
}

func (t *fnTrans) heapHavoc(st *State, name, sort string) string {
	n := t.freshConst(name+"@", sort)
	st.heaps[name] = n
	t.rangeAxiom(name, n, sort)
	t.markMod(st, name)
	return n
}

func arrSort(s string) string  { return "(Array Int " + s + ")" }
func arr2Sort(s string) string { return "(Array Int (Array Int " + s + "))" }

// heapComp remembers, per heap name, the leaf component stored in it (for range axioms).
var heapComp = map[string]Comp{}

// heapSortReg: sort of every heap whose name was ever constructed (independent of translation order).
var heapSortReg = map[string]string{}

func regComp(name string, T types.Type, suffix string) {
	if _, ok := heapComp[name]; ok {
		return
	}
	for _, c := range flatten(T) {
		if c.Suffix == suffix {
			heapComp[name] = c
			switch name[0] {
			case 'E':
				heapSortReg[name] = arr2Sort(c.Sort)
			default:
				heapSortReg[name] = arrSort(c.Sort)
			}
			return
		}
	}
}

func fieldHeap(S types.Type, field string, suffix string) string {
	n := "F." + structKey(S) + "." + field + suffix
	if _, ok := heapComp[n]; !ok {
		if i := fieldIndex(S, field); i >= 0 {
			regComp(n, under(S).(*types.Struct).Field(i).Type(), suffix)
		}
	}
	return n
}
func elemHeap(T types.Type, suffix string) string {
	n := "E." + typeKey(T) + suffix
	regComp(n, T, suffix)
	return n
}
func cellHeap(T types.Type, suffix string) string {
	n := "C." + typeKey(T) + suffix
	regComp(n, T, suffix)
	return n
}

// sliceGroupAxiom: slices stored in a heap are well-formed (len <= cap, nil has cap 0).
func (t *fnTrans) sliceGroupAxiom(sib [4]string, sort string) {
	var get func(h string) string
	var bind string
	if strings.HasPrefix(sort, "(Array Int (Array Int") {
		get = func(h string) string { return "(select (select " + h + " a!r) i!r)" }
		bind = "((a!r Int) (i!r Int))"
	} else {
		get = func(h string) string { return "(select " + h + " a!r)" }
		bind = "((a!r Int))"
	}
	a, o, l, c := get(sib[0]), get(sib[1]), get(sib[2]), get(sib[3])
	f := and(le(l, c), le(add(o, c), maxLenStr), imp(eq(a, "0"), eq(c, "0")))
	t.assumeRaw(fmt.Sprintf("(forall %s (! %s :pattern (%s) :pattern (%s) :pattern (%s)))", bind, f, l, a, c))
}

// after havocking heaps, restate slice well-formedness for every havocked slice group
func (t *fnTrans) regroup(st *State, names []string) {
	for _, n := range names {
		if !strings.HasSuffix(n, ".len") {
			continue
		}
		base := strings.TrimSuffix(n, ".len")
		sort := t.eng.heapSort[n]
		var sib [4]string
		for i, part := range []string{".arr", ".off", ".len", ".cap"} {
			t.eng.heapSort[base+part] = sort
			sib[i] = t.heapGet(st, base+part, sort)
		}
		t.sliceGroupAxiom(sib, sort)
	}
}

// rangeAxiom: every value stored in an unconstrained heap version is a value of its Go type.
func (t *fnTrans) rangeAxiom(name, term, sort string) {
	c, ok := heapComp[name]
	if !ok {
		return
	}
	// references stored in a heap version never exceed the allocation mark of that version
	topTerm := ""
	if strings.HasSuffix(term, "@0|") {
		topTerm = "|$top@0|"
		if !t.declared["$top@0"] {
			topTerm = ""
		}
	} else if t.st != nil {
		if tp, ok := t.st.heaps["$top"]; ok {
			topTerm = tp
		} else if t.declared["$top@0"] {
			topTerm = "|$top@0|"
		}
	}
	var lo, hi string
	if fr, ok := t.eng.cs.FieldRange[name]; ok {
		var v, bind string
		if strings.HasPrefix(sort, "(Array Int (Array Int") {
			v = "(select (select " + term + " a!r) i!r)"
			bind = "((a!r Int) (i!r Int))"
		} else {
			v = "(select " + term + " a!r)"
			bind = "((a!r Int))"
		}
		t.assumeRaw(fmt.Sprintf("(forall %s (! %s :pattern (%s)))", bind, and(le(fr[0], v), le(v, fr[1])), v))
		return
	}
	switch c.Part {
	case "":
		l, h, ok := intRange(c.T)
		if !ok {
			switch under(c.T).(type) {
			case *types.Pointer, *types.Map, *types.Chan:
				if topTerm == "" {
					return
				}
				hi = topTerm
				lo = "(- 9223372036854775808)"
			default:
				return
			}
		} else {
			lo, hi = num(l), num(h)
		}
	case "arr":
		lo = "0"
		hi = topTerm
	case "tag":
		lo = "0"
	case "off", "len", "cap":
		lo, hi = "0", maxLenStr
	default:
		return
	}
	var v, bind, pat string
	if strings.HasPrefix(sort, "(Array Int (Array Int") {
		v = "(select (select " + term + " a!r) i!r)"
		bind = "((a!r Int) (i!r Int))"
	} else {
		v = "(select " + term + " a!r)"
		bind = "((a!r Int))"
	}
	pat = v
	f := le(lo, v)
	if hi != "" {
		f = and(f, le(v, hi))
	}
	t.assumeRaw(fmt.Sprintf("(forall %s (! %s :pattern (%s)))", bind, f, pat))
}

func (t *fnTrans) top(st *State) string { return t.heapGet(st, "$top", "Int") }

func (t *fnTrans) alloc(st *State) string {
	old := t.top(st)
	r := t.freshConst("ref", "Int")
	t.assumeRaw(eq(r, add(old, "1")))
	st.heaps["$top"] = r
	return r
}

// subobject reference for a struct-typed field that is not at offset 0
func subref(ref string, S types.Type, fieldIdx int) string {
	return fmt.Sprintf("(subobj %s %d)", ref, fieldIdx)
}

func fieldIndex(S types.Type, name string) int {
	st := under(S).(*types.Struct)
	for i := 0; i < st.NumFields(); i++ {
		if st.Field(i).Name() == name {
			return i
		}
	}
	return -1
}

func isStruct(t types.Type) bool {
	_, ok := under(t).(*types.Struct)
	return ok
}

// loadObj reads a whole struct value out of the F heaps.
func (t *fnTrans) loadObj(st *State, ref string, S types.Type) []string {
	var out []string
	su := under(S).(*types.Struct)
	for i := 0; i < su.NumFields(); i++ {
		f := su.Field(i)
		if isStruct(f.Type()) {
			r := ref
			if i != 0 {
				r = subref(ref, S, i)
			}
			out = append(out, t.loadObj(st, r, f.Type())...)
			continue
		}
		for _, c := range flatten(f.Type()) {
			h := t.heapGet(st, fieldHeap(S, f.Name(), c.Suffix), arrSort(c.Sort))
			out = append(out, sel(h, ref))
		}
	}
	return out
}

func (t *fnTrans) storeObj(st *State, ref string, S types.Type, comps []string) {
	su := under(S).(*types.Struct)
	k := 0
	for i := 0; i < su.NumFields(); i++ {
		f := su.Field(i)
		n := ncomps(f.Type())
		if isStruct(f.Type()) {
			r := ref
			if i != 0 {
				r = subref(ref, S, i)
			}
			t.storeObj(st, r, f.Type(), comps[k:k+n])
		} else {
			for j, c := range flatten(f.Type()) {
				hn := fieldHeap(S, f.Name(), c.Suffix)
				h := t.heapGet(st, hn, arrSort(c.Sort))
				t.heapSet(st, hn, arrSort(c.Sort), sto(h, ref, comps[k+j]))
			}
		}
		k += n
	}
}

func zeroComps(T types.Type) []string {
	var out []string
	for _, c := range flatten(T) {
		if c.Sort == "Bool" {
			out = append(out, "false")
		} else {
			out = append(out, "0")
		}
	}
	return out
}

func (t *fnTrans) load(st *State, lv *LVal) Val {
	switch lv.Kind {
	case lvObj:
		return Val{lv.T, t.loadObj(st, lv.Ref, lv.S)}
	case lvField:
		var out []string
		for _, c := range flatten(lv.T) {
			h := t.heapGet(st, fieldHeap(lv.S, lv.Field, c.Suffix), arrSort(c.Sort))
			out = append(out, sel(h, lv.Ref))
		}
		return Val{lv.T, out}
	case lvElem:
		var out []string
		for _, c := range flatten(lv.T) {
			h := t.heapGet(st, elemHeap(lv.ElemT, lv.Path+c.Suffix), arr2Sort(c.Sort))
			out = append(out, sel(sel(h, lv.Ref), lv.Idx))
		}
		return Val{lv.T, out}
	case lvCell:
		var out []string
		for _, c := range flatten(lv.T) {
			h := t.heapGet(st, cellHeap(lv.T, c.Suffix), arrSort(c.Sort))
			out = append(out, sel(h, lv.Ref))
		}
		return Val{lv.T, out}
	}
	panic("load: bad lval")
}

func (t *fnTrans) store(st *State, lv *LVal, v Val) {
	switch lv.Kind {
	case lvObj:
		t.storeObj(st, lv.Ref, lv.S, v.C)
	case lvField:
		for i, c := range flatten(lv.T) {
			hn := fieldHeap(lv.S, lv.Field, c.Suffix)
			h := t.heapGet(st, hn, arrSort(c.Sort))
			t.heapSet(st, hn, arrSort(c.Sort), sto(h, lv.Ref, v.C[i]))
		}
	case lvElem:
		for i, c := range flatten(lv.T) {
			hn := elemHeap(lv.ElemT, lv.Path+c.Suffix)
			h := t.heapGet(st, hn, arr2Sort(c.Sort))
			t.heapSet(st, hn, arr2Sort(c.Sort), sto(h, lv.Ref, sto(sel(h, lv.Ref), lv.Idx, v.C[i])))
		}
	case lvCell:
		for i, c := range flatten(lv.T) {
			hn := cellHeap(lv.T, c.Suffix)
			h := t.heapGet(st, hn, arrSort(c.Sort))
			t.heapSet(st, hn, arrSort(c.Sort), sto(h, lv.Ref, v.C[i]))
		}
	default:
		panic("store: bad lval")
	}
}

// loadFacts: range facts for a value just read from the heap / received from outside.
func (t *fnTrans) valueFacts(st *State, v Val) string {
	fs := []string{rangeFact(v.T, v.C)}
	top := t.top(st)
	for _, i := range refComps(v.T) {
		fs = append(fs, le(v.C[i], top))
	}
	return and(fs...)
}

// ---------- values ----------

func (t *fnTrans) freshVal(prefix string, T types.Type) Val {
	var cs []string
	base := t.fresh(prefix)
	for _, c := range flatten(T) {
		cs = append(cs, t.decl(base+c.Suffix, c.Sort))
	}
	return Val{T, cs}
}

func (t *fnTrans) constVal(c *ssa.Const) Val {
	T := c.Type()
	if c.Value == nil { // nil / zero value
		return Val{T, zeroComps(T)}
	}
	switch c.Value.Kind() {
	case constant.Bool:
		if constant.BoolVal(c.Value) {
			return Val{T, []string{"true"}}
		}
		return Val{T, []string{"false"}}
	case constant.Int:
		s := c.Value.ExactString()
		if strings.HasPrefix(s, "-") {
			s = "(- " + s[1:] + ")"
		}
		return Val{T, []string{s}}
	case constant.String:
		return Val{T, []string{t.eng.strConst(constant.StringVal(c.Value))}}
	}
	t.errorf("unsupported constant %v", c)
	return Val{T, zeroComps(T)}
}

func (t *fnTrans) val(v ssa.Value) Val {
	if x, ok := t.vals[v]; ok {
		return x
	}
	switch c := v.(type) {
	case *ssa.Const:
		return t.constVal(c)
	case *ssa.Function:
		return Val{c.Type(), []string{t.eng.funcID(c.String())}}
	case *ssa.Global:
		// address of a global used as a value
		return Val{c.Type(), []string{t.eng.globalRef(c)}}
	case *ssa.Builtin:
		t.errorf("builtin %s used as value", c.Name())
		return Val{c.Type(), []string{"0"}}
	}
	if lv, ok := t.lvals[v]; ok {
		// a pointer register that must become a first-class value
		switch lv.Kind {
		case lvObj, lvCell, lvArr:
			return Val{v.Type(), []string{lv.Ref}}
		case lvField:
			return Val{v.Type(), []string{fmt.Sprintf("(addrof %s %d)", lv.Ref, t.eng.fieldID(lv.S, lv.Field))}}
		case lvElem:
			return Val{v.Type(), []string{fmt.Sprintf("(addrof %s %s)", lv.Ref, lv.Idx)}}
		}
	}
	t.errorf("no value for %s (%T) in %s", v.Name(), v, t.fname)
	return Val{v.Type(), zeroComps(v.Type())}
}

// lval interprets an SSA pointer value as an l-value.
func (t *fnTrans) lval(v ssa.Value) *LVal {
	if lv, ok := t.lvals[v]; ok {
		return lv
	}
	if g, ok := v.(*ssa.Global); ok {
		T := g.Type().(*types.Pointer).Elem()
		ref := t.eng.globalRef(g)
		if isStruct(T) {
			return &LVal{Kind: lvObj, Ref: ref, S: T, T: T}
		}
		return &LVal{Kind: lvCell, Ref: ref, T: T}
	}
	pt, ok := under(v.Type()).(*types.Pointer)
	if !ok {
		t.errorf("lval of non-pointer %s", v.Name())
		return &LVal{Kind: lvCell, Ref: "0", T: v.Type()}
	}
	x := t.val(v)
	T := pt.Elem()
	if isStruct(T) {
		return &LVal{Kind: lvObj, Ref: x.C[0], S: T, T: T}
	}
	if at, ok := under(T).(*types.Array); ok {
		return &LVal{Kind: lvArr, Ref: x.C[0], ElemT: at.Elem(), T: T}
	}
	return &LVal{Kind: lvCell, Ref: x.C[0], T: T}
}

func (t *fnTrans) fieldAddr(base *LVal, idx int, ins ssa.Instruction) *LVal {
	switch base.Kind {
	case lvObj:
		su := under(base.S).(*types.Struct)
		f := su.Field(idx)
		if isStruct(f.Type()) {
			r := base.Ref
			if idx != 0 {
				r = subref(base.Ref, base.S, idx)
			}
			return &LVal{Kind: lvObj, Ref: r, S: f.Type(), T: f.Type()}
		}
		return &LVal{Kind: lvField, Ref: base.Ref, S: base.S, Field: f.Name(), T: f.Type()}
	case lvElem:
		su := under(base.T).(*types.Struct)
		f := su.Field(idx)
		return &LVal{Kind: lvElem, Ref: base.Ref, Idx: base.Idx, ElemT: base.ElemT, Path: base.Path + "." + f.Name(), T: f.Type()}
	}
	t.errorf("fieldAddr on unsupported base kind %d", base.Kind)
	return base
}

// ---------- driver ----------

func (t *fnTrans) isBackEdge(from, to *ssa.BasicBlock) bool {
	return to.Dominates(from)
}

func (t *fnTrans) order() []*ssa.BasicBlock {
	// reverse postorder ignoring back edges
	var post []*ssa.BasicBlock
	seen := map[*ssa.BasicBlock]bool{}
	var dfs func(b *ssa.BasicBlock)
	dfs = func(b *ssa.BasicBlock) {
		seen[b] = true
		for i := len(b.Succs) - 1; i >= 0; i-- {
			s := b.Succs[i]
			if t.isBackEdge(b, s) || seen[s] {
				continue
			}
			dfs(s)
		}
		post = append(post, b)
	}
	dfs(t.fn.Blocks[0])
	for i, j := 0, len(post)-1; i < j; i, j = i+1, j-1 {
		post[i], post[j] = post[j], post[i]
	}
	return post
}

func (t *fnTrans) findLoops() {
	t.loops = map[*ssa.BasicBlock]*loopInfo{}
	for _, b := range t.fn.Blocks {
		for _, s := range b.Succs {
			if t.isBackEdge(b, s) {
				li := t.loops[s]
				if li == nil {
					li = &loopInfo{header: s, body: map[*ssa.BasicBlock]bool{s: true}}
					t.loops[s] = li
				}
				// natural loop of back edge b->s
				var stack []*ssa.BasicBlock
				if !li.body[b] {
					li.body[b] = true
					stack = append(stack, b)
				}
				for len(stack) > 0 {
					x := stack[len(stack)-1]
					stack = stack[:len(stack)-1]
					for _, p := range x.Preds {
						if !li.body[p] {
							li.body[p] = true
							stack = append(stack, p)
						}
					}
				}
			}
		}
	}
	// ordinals by source position: smallest valid Pos within the loop
	type hp struct {
		h   *ssa.BasicBlock
		pos token.Pos
	}
	var hs []hp
	for h, li := range t.loops {
		min := token.Pos(1 << 60)
		for b := range li.body {
			for _, ins := range b.Instrs {
				if p := ins.Pos(); p.IsValid() && p < min {
					min = p
				}
			}
		}
		hs = append(hs, hp{h, min})
	}
	sort.Slice(hs, func(i, j int) bool { return hs[i].pos < hs[j].pos })
	for i, x := range hs {
		t.loops[x.h].ordinal = i + 1
	}
}

func oblKinds(ins ssa.Instruction) []string {
	switch x := ins.(type) {
	case *ssa.IndexAddr, *ssa.Index:
		return []string{"bounds", "nil"}
	case *ssa.Slice:
		return []string{"slice", "strictslice", "nil"}
	case *ssa.FieldAddr:
		return []string{"nil"}
	case *ssa.UnOp:
		return []string{"nil", "overflow"}
	case *ssa.Store:
		return []string{"nil"}
	case *ssa.BinOp:
		return []string{"overflow", "div", "shift"}
	case *ssa.Convert:
		return []string{"overflow"}
	case *ssa.Call:
		_ = x
		return []string{"pre", "nil", "alloc", "lock"}
	case *ssa.Defer, *ssa.RunDefers:
		return []string{"pre", "nil", "lock"}
	case *ssa.MakeSlice:
		return []string{"makeslice", "alloc"}
	case *ssa.TypeAssert:
		return []string{"typeassert"}
	case *ssa.Panic:
		return []string{"unreachable"}
	case *ssa.MapUpdate:
		return []string{"nil"}
	case *ssa.Return:
		return []string{"post", "frame", "lock"}
	case *ssa.Jump, *ssa.If:
		return []string{"inv-entry", "inv-preserve", "variant", "step"}
	}
	return nil
}

func (t *fnTrans) assignOrdinals() {
	t.ords = map[ssa.Instruction]map[string]int{}
	counts := map[string]int{}
	for _, b := range t.fn.Blocks {
		for _, ins := range b.Instrs {
			ks := oblKinds(ins)
			if ks == nil {
				continue
			}
			m := map[string]int{}
			for _, k := range ks {
				m[k] = counts[k] * 100
				counts[k]++
			}
			t.ords[ins] = m
		}
	}
}

func translateFunc(eng *Engine, fn *ssa.Function, ct *Contract) (t *fnTrans) {
	t = &fnTrans{eng: eng, fn: fn, ct: ct, fname: eng.shortName(fn.String()),
		vals: map[ssa.Value]Val{}, lvals: map[ssa.Value]*LVal{},
		reach: map[*ssa.BasicBlock]string{}, edges: map[[2]int]string{}, outSt: map[*ssa.BasicBlock]*State{},
		ordc: map[string]int{}, params: map[string]Val{}, paramLV: map[string]*LVal{}, declared: map[string]bool{},
		freeVarVals: map[string]Val{}, cse: map[string]string{}, atcallHit: map[string]bool{}}
	defer func() {
		// an atcall clause that matched no call in the function would silently check (or assume) nothing
		if r := recover(); r == nil {
			var missing []string
			for k := range ct.AtCall {
				if !t.atcallHit[k] {
					missing = append(missing, k)
				}
			}
			for k := range ct.AtCallAssume {
				if !t.atcallHit[k] && len(ct.AtCallAssume[k]) > 0 {
					missing = append(missing, k)
				}
			}
			sort.Strings(missing)
			for _, k := range missing {
				t.errorf("atcall clause names %s, which this function does not call", k)
			}
			return
		} else {
			t.errorf("translator panic: %v", r)
			if os.Getenv("GOVC_STACK") != "" {
				debug.PrintStack()
			}
			if eng.debug {
				panic(r)
			}
		}
	}()
	t.strict = ct.Strict
	splitMacros = func(name string) ([]string, ast.Expr) {
		if d := eng.cs.ByTarget["define "+fn.Pkg.Pkg.Path()+"."+name]; d != nil && d.DefExpr != nil && d.Flags["nosplit"] == "" {
			if _, isBool := d.DefExpr.(*ast.BinaryExpr); isBool {
				return d.DefParams, d.DefExpr
			}
		}
		return nil, nil
	}
	if len(fn.Blocks) == 0 {
		t.errorf("function has no body")
		return
	}
	t.findLoops()
	t.assignOrdinals()
	t.entry = &State{heaps: map[string]string{}, mtop: map[string]string{}}
	t.st = t.entry.clone()
	t.top(t.st)

	// parameters
	for i, p := range fn.Params {
		v := t.freshVal("p."+p.Name(), p.Type())
		t.vals[p] = v
		t.params[p.Name()] = v
		t.assumeRaw(t.valueFacts(t.st, v))
		if i == 0 && fn.Signature.Recv() != nil {
			if _, isPtr := under(p.Type()).(*types.Pointer); isPtr {
				t.assumeRaw(lt("0", v.C[0]))
			}
		}
	}
	for _, fv := range fn.FreeVars {
		v := t.freshVal("fv."+fv.Name(), fv.Type())
		t.vals[fv] = v
		t.freeVarVals[fv.Name()] = v
		t.assumeRaw(t.valueFacts(t.st, v))
	}
	t.assumeRaw(le("0", t.top(t.st)))
	// package axioms (assumed facts about package-level state; listed in trusted_base)
	for _, name := range eng.cs.Order {
		ax := eng.cs.ByTarget[name]
		if ax.Kind != "axiom" || ax.DefExpr == nil || ax.Pkg != fn.Pkg.Pkg.Path() {
			continue
		}
		axenv := t.specEnv(t.st, t.st)
		if p := eng.pkgOf(ax); p != nil {
			axenv.pkg = p
		}
		t.assumeRaw(axenv.evalBool(ax.DefExpr))
		for _, e := range axenv.errs {
			t.errorf("axiom %s: %s", name, e)
		}
	}
	// preconditions
	env := t.specEnv(t.st, t.st)
	for _, cl := range ct.Requires {
		f := env.evalBool(cl.Expr)
		t.assumeRaw(f)
	}
	for _, e := range env.errs {
		t.errorf("requires: %s", e)
	}

	t.runGhosts(t.st, "entry", 0, nil)
	blocks := t.order()
	for _, b := range blocks {
		t.block(b)
	}
	return
}

func (t *fnTrans) edgeName(from, to *ssa.BasicBlock, k int) string {
	return fmt.Sprintf("edge!%d!%d!%d", from.Index, to.Index, k)
}

func (t *fnTrans) block(b *ssa.BasicBlock) {
	// reach + incoming state
	rname := fmt.Sprintf("reach!%d", b.Index)
	li := t.loops[b]
	if b.Index == 0 {
		t.decl(rname, "Bool")
		t.reach[b] = q(rname)
		t.assumeRaw(q(rname))
		t.st = t.st // entry state already prepared
	} else {
		type inc struct {
			pred *ssa.BasicBlock
			edge string
			st   *State
			idx  int
		}
		var incs []inc
		for pi, p := range b.Preds {
			if t.isBackEdge(p, b) {
				continue
			}
			// find which successor slot
			var e string
			for k, s := range p.Succs {
				if s == b {
					if x, ok := t.edges[[2]int{p.Index*4 + k, b.Index}]; ok {
						if e == "" {
							e = x
						} else {
							e = or(e, x)
						}
					}
				}
			}
			if e == "" || t.outSt[p] == nil {
				continue // predecessor unreachable / not translated
			}
			incs = append(incs, inc{p, e, t.outSt[p], pi})
		}
		t.decl(rname, "Bool")
		t.reach[b] = q(rname)
		var es []string
		for _, in := range incs {
			es = append(es, in.edge)
		}
		t.assumeRaw(eq(q(rname), or(es...)))
		if len(incs) == 0 {
			t.outSt[b] = nil
			return
		}
		// merge states
		st := &State{heaps: map[string]string{}, mtop: map[string]string{}}
		names := map[string]bool{}
		for _, in := range incs {
			for k := range in.st.heaps {
				names[k] = true
			}
		}
		var nl []string
		for k := range names {
			nl = append(nl, k)
		}
		sort.Strings(nl)
		for _, k := range nl {
			sortOf := t.eng.heapSort[k]
			first := ""
			same := true
			var terms []string
			for _, in := range incs {
				v, ok := in.st.heaps[k]
				if !ok {
					v = t.heapGet(in.st, k, sortOf)
				}
				terms = append(terms, v)
				if first == "" {
					first = v
				} else if v != first {
					same = false
				}
			}
			if same {
				st.heaps[k] = first
				continue
			}
			n := t.freshConst(k+"@", sortOf)
			for i, in := range incs {
				t.assumeRaw(imp(in.edge, eq(n, terms[i])))
			}
			st.heaps[k] = n
		}
		// modification marks: keep when all predecessors agree, else the (merged) current top
		st.mtop = map[string]string{}
		mk := map[string]bool{}
		for _, in := range incs {
			for k := range in.st.mtop {
				mk[k] = true
			}
		}
		for k := range mk {
			first, same := "", true
			for i, in := range incs {
				v, ok := in.st.mtop[k]
				if !ok {
					v = "@entry"
				}
				if i == 0 {
					first = v
				} else if v != first {
					same = false
				}
			}
			if same && first != "@entry" {
				st.mtop[k] = first
			} else if !same {
				st.mtop[k] = "@merge"
			}
		}
		// defers: take from first (must agree)
		st.defers = append([]*ssa.Defer(nil), incs[0].st.defers...)
		if tp, ok := st.heaps["$top"]; ok {
			for k, v := range st.mtop {
				if v == "@merge" {
					st.mtop[k] = tp
				}
			}
		} else {
			for k, v := range st.mtop {
				if v == "@merge" {
					delete(st.mtop, k)
				}
			}
		}
		for _, in := range incs[1:] {
			if len(in.st.defers) != len(st.defers) {
				t.errorf("defer stacks differ at block %d", b.Index)
			}
		}
		t.st = st
		t.cur = b

		if li != nil {
			// loop header: check invariant on entry edges, havoc, assume invariant
			for _, in := range incs {
				vars := map[string]Val{}
				for _, ins := range b.Instrs {
					phi, ok := ins.(*ssa.Phi)
					if !ok {
						break
					}
					t.bindRangeSlice(phi, vars)
					if phi.Comment != "" {
						vars[phi.Comment] = t.val(phi.Edges[in.idx])
					}
					vars["$"+phi.Name()] = t.val(phi.Edges[in.idx])
				}
				hasG := false
				for _, g := range t.ct.Ghosts {
					if g.At == "entry" && g.Loop == li.ordinal {
						hasG = true
					}
				}
				if hasG {
					if len(incs) != 1 {
						t.errorf("ghost statements at loop %d entry need a single entry edge", li.ordinal)
					}
					t.runGhosts(in.st, "entry", li.ordinal, vars)
					// the merged state was computed before: refresh ghost heaps
					for k, v := range in.st.heaps {
						if strings.HasPrefix(k, "G.") {
							t.st.heaps[k] = v
						}
					}
				}
				t.checkInvariant(li, in.st, vars, in.edge, "inv-entry", in.pred.Instrs[len(in.pred.Instrs)-1])
			}
			t.havocLoop(li)
		}
		// phis
		for _, ins := range b.Instrs {
			phi, ok := ins.(*ssa.Phi)
			if !ok {
				break
			}
			v := t.freshVal(phi.Name(), phi.Type())
			t.vals[phi] = v
			if li != nil {
				t.assume(t.valueFacts(t.st, v))
				continue
			}
			for _, in := range incs {
				x := t.val(phi.Edges[in.idx])
				t.assumeRaw(imp(in.edge, eqComps(v.C, x.C)))
			}
		}
		if li != nil {
			vars := t.loopVars(li)
			li.headVars = vars
			li.headSt = t.st.clone()
			env := t.specEnv(t.st, t.entry)
			for k, v := range vars {
				env.vars[k] = v
			}
			t.bindLocalsAt(env, li.header)
			for _, cl := range t.ct.LoopInv[li.ordinal] {
				t.assume(env.evalBool(cl.Expr))
			}
			if ri, ok := vars["rangeindex"]; ok {
				t.assume(and(le("(- 1)", ri.C[0]), le(ri.C[0], maxLenStr)))
			}
			if d := t.ct.LoopDec[li.ordinal]; d != nil {
				li.variant = env.eval(d.Expr).C[0]
			}
			for _, e := range env.errs {
				t.errorf("loop %d invariant: %s", li.ordinal, e)
			}
			if len(t.ct.LoopInv[li.ordinal]) == 0 {
				t.errorf("loop %d has no invariant", li.ordinal)
			}
		}
	}
	t.cur = b
	for _, ins := range b.Instrs {
		if _, ok := ins.(*ssa.Phi); ok {
			continue
		}
		t.instr(ins)
	}
	t.outSt[b] = t.st
}

// runGhosts executes the ghost statements registered for a position in state st.
func (t *fnTrans) runGhosts(st *State, at string, loop int, vars map[string]Val) {
	for _, g := range t.ct.Ghosts {
		if g.At != at || g.Loop != loop {
			continue
		}
		env := t.specEnv(st, t.entry)
		for k, v := range vars {
			env.vars[k] = v
		}
		idx := env.eval(g.Idx).C[0]
		val := env.eval(g.Val).C[0]
		hn := "G." + g.Name
		t.eng.heapSort[hn] = "(Array Int Int)"
		old := t.heapGet(st, hn, "(Array Int Int)")
		saved := t.st
		t.heapSet(st, hn, "(Array Int Int)", sto(old, idx, val))
		t.st = saved
		for _, e := range env.errs {
			t.errorf("ghost %s: %s", g.Text, e)
		}
	}
}

// localBinding: a source-level local variable bound to an SSA value at a DebugRef.
type localBinding struct {
	name string
	blk  *ssa.BasicBlock
	val  Val
	cell *LVal // address-taken local: its content is read in the state the clause is evaluated in
}

// bindLocals makes the locals whose binding dominates the current block visible by name (latest wins);
// names already bound (parameters, loop variables) are not overridden.
func (t *fnTrans) bindLocals(env *specEnv) {
	t.bindLocalsAt(env, t.cur)
}

// bindLocalsAt: locals bound in blocks strictly dominating blk (for loop invariants: values fixed before the loop).
func (t *fnTrans) bindLocalsAt(env *specEnv, blk *ssa.BasicBlock) {
	if blk == nil {
		return
	}
	strict := blk != t.cur
	got := map[string]Val{}
	for _, lb := range t.locals {
		if lb.cell != nil {
			if lb.blk == blk || lb.blk.Dominates(blk) {
				got[lb.name] = t.load(env.cur, lb.cell)
			}
			continue
		}
		if (lb.blk == blk && !strict) || (lb.blk != blk && lb.blk.Dominates(blk)) {
			got[lb.name] = lb.val
		}
	}
	for k, v := range got {
		if _, ok := env.vars[k]; !ok {
			env.vars[k] = v
		}
	}
}

// bindRangeSlice: for a range-over-slice loop, the slice being ranged over is visible as `rangeslice`
// (X of the IndexAddr indexed by rangeindex+1).
func (t *fnTrans) bindRangeSlice(phi *ssa.Phi, vars map[string]Val) {
	if phi.Comment != "rangeindex" || phi.Referrers() == nil {
		return
	}
	for _, r1 := range *phi.Referrers() {
		bo, ok := r1.(*ssa.BinOp)
		if !ok || bo.Referrers() == nil {
			continue
		}
		// the slice ranged over is the one indexed first in the loop body (`for i, x := range s` starts the body with
		// x = s[i]); other slices indexed by i (q[i]) come later
		var first *ssa.IndexAddr
		firstPos := -1
		for _, r2 := range *bo.Referrers() {
			if ia, ok := r2.(*ssa.IndexAddr); ok && ia.Index == ssa.Value(bo) {
				pos := -1
				if len(bo.Block().Succs) > 0 && ia.Block() == bo.Block().Succs[0] {
					for k, in2 := range ia.Block().Instrs {
						if in2 == ssa.Instruction(ia) {
							pos = k
						}
					}
				}
				if first == nil || (pos >= 0 && (firstPos < 0 || pos < firstPos)) {
					first, firstPos = ia, pos
				}
			}
		}
		if first != nil {
			if v, known := t.vals[first.X]; known {
				vars["rangeslice"] = v
			}
		}
	}
}

func (t *fnTrans) loopVars(li *loopInfo) map[string]Val {
	vars := map[string]Val{}
	for _, ins := range li.header.Instrs {
		phi, ok := ins.(*ssa.Phi)
		if !ok {
			break
		}
		if phi.Comment != "" {
			vars[phi.Comment] = t.vals[phi]
		}
		t.bindRangeSlice(phi, vars)
		vars["$"+phi.Name()] = t.vals[phi]
	}
	return vars
}

func (t *fnTrans) checkInvariant(li *loopInfo, st *State, vars map[string]Val, guard, kind string, at ssa.Instruction) {
	env := t.specEnv(st, t.entry)
	for k, v := range vars {
		env.vars[k] = v
	}
	t.bindLocalsAt(env, li.header)
	if ri, ok := vars["rangeindex"]; ok {
		// implicit invariant of every range-over-slice loop
		t.obligG(kind, at, fmt.Sprintf("loop%d.rangeindex", li.ordinal), guard, and(le("(- 1)", ri.C[0]), le(ri.C[0], maxLenStr)), "implicit: -1 <= rangeindex <= 2^56")
	}
	for i, cl := range t.ct.LoopInv[li.ordinal] {
		label := cl.Label
		if label == "" {
			label = fmt.Sprintf("loop%d.%d", li.ordinal, i+1)
		} else {
			label = fmt.Sprintf("loop%d.%s", li.ordinal, label)
		}
		parts := splitConj(cl.Expr)
		for pi, pe := range parts {
			f := env.evalBool(pe)
			lb := label
			if len(parts) > 1 {
				lb = fmt.Sprintf("%s.%d", label, pi+1)
			}
			// a latch block reached over several edges: one obligation per incoming edge for quantified parts
			// (fixes which of the merged heap versions is current; as for postconditions at merged returns)
			guards, suffix := []string{guard}, []string{""}
			if kind == "inv-preserve" && at != nil && strings.Contains(f, "(forall ") {
				if inc := t.incomingEdges(at.Block()); len(inc) > 1 {
					guards, suffix = nil, nil
					for _, e := range inc {
						guards = append(guards, and(guard, e.edge))
						suffix = append(suffix, fmt.Sprintf("@b%d", e.pred))
					}
				}
			}
			for gi, g := range guards {
				ob := t.obligG(kind, at, lb+suffix[gi], g, f, "invariant "+exprString(pe))
				if ob != nil {
					ob.Tags = cl.Tags
					ob.Known = cl.Known
				}
			}
		}
	}
	if kind == "inv-preserve" && li.headSt != nil {
		senv := t.specEnv(st, li.headSt)
		senv.oldVars = map[string]Val{}
		for k, v := range senv.vars {
			senv.oldVars[k] = v
		}
		for k, v := range vars {
			senv.vars[k] = v
			senv.oldVars[k] = v
		}
		t.bindLocals(senv)
		for k, v := range senv.vars {
			if _, ok := senv.oldVars[k]; !ok {
				senv.oldVars[k] = v
			}
		}
		for i, cl := range t.ct.LoopStep[li.ordinal] {
			label := cl.Label
			if label == "" {
				label = fmt.Sprintf("%d", i+1)
			}
			for pi, pe := range splitConj(cl.Expr) {
				ob := t.obligG("step", at, fmt.Sprintf("loop%d.%s.%d", li.ordinal, label, pi+1), guard, senv.evalBool(pe), "every iteration: "+exprString(pe))
				if ob != nil {
					ob.Tags = cl.Tags
				}
			}
		}
		for _, e := range senv.errs {
			t.errorf("loop %d step: %s", li.ordinal, e)
		}
	}
	if kind == "inv-preserve" && li.variant != "" {
		if d := t.ct.LoopDec[li.ordinal]; d != nil {
			now := env.eval(d.Expr).C[0]
			t.obligG("variant", at, fmt.Sprintf("loop%d", li.ordinal), guard, and(le("0", li.variant), lt(now, li.variant)), "decreases "+d.Text)
		}
	}
	for _, e := range env.errs {
		t.errorf("loop %d invariant: %s", li.ordinal, e)
	}
}

// havocLoop forgets everything the loop body may modify.
// locset: where a loop may write within one heap. whole=true: anywhere.
type locset struct {
	whole bool
	roots []string // array ids / object refs (SMT terms valid at the loop head)
}

func (t *fnTrans) definedOutside(li *loopInfo, v ssa.Value) bool {
	switch x := v.(type) {
	case *ssa.Parameter, *ssa.FreeVar, *ssa.Const, *ssa.Global:
		return true
	case ssa.Instruction:
		return !li.body[x.Block()]
	}
	return false
}

// arrRootTerm: the array id written through slice value v, if it is fixed across iterations.
// fresh=true: the array is allocated inside the loop (no pre-existing array is written).
func (t *fnTrans) arrRootTerm(li *loopInfo, v ssa.Value) (term string, fresh, ok bool) {
	for i := 0; i < 20; i++ {
		if t.definedOutside(li, v) {
			if _, isSl := under(v.Type()).(*types.Slice); isSl {
				return t.val(v).C[0], false, true
			}
			if lv, has := t.lvals[v]; has && lv.Kind == lvArr {
				return lv.Ref, false, true
			}
			return "", false, false
		}
		switch x := v.(type) {
		case *ssa.Slice:
			v = x.X
		case *ssa.ChangeType:
			v = x.X
		case *ssa.Alloc, *ssa.MakeSlice:
			return "", true, true
		default:
			return "", false, false
		}
	}
	return "", false, false
}

func (t *fnTrans) objRefTerm(li *loopInfo, v ssa.Value) (string, bool) {
	if t.definedOutside(li, v) {
		if lv, has := t.lvals[v]; has {
			if lv.Kind == lvObj {
				return lv.Ref, true
			}
			return "", false
		}
		if _, isP := under(v.Type()).(*types.Pointer); isP {
			if g, isG := v.(*ssa.Global); isG {
				return t.eng.globalRef(g), true
			}
			return t.val(v).C[0], true
		}
		return "", false
	}
	if fa, ok := v.(*ssa.FieldAddr); ok {
		S := deref(fa.X.Type())
		f := under(S).(*types.Struct).Field(fa.Field)
		if !isStruct(f.Type()) {
			return "", false
		}
		base, ok := t.objRefTerm(li, fa.X)
		if !ok {
			return "", false
		}
		if fa.Field == 0 {
			return base, true
		}
		return subref(base, S, fa.Field), true
	}
	if _, ok := v.(*ssa.Alloc); ok {
		return "", false
	}
	return "", false
}

// locate tries to say where instruction ins writes; returns false if unknown.
func (t *fnTrans) locate(li *loopInfo, ins ssa.Instruction, heaps map[string]bool, out map[string]*locset) {
	add := func(root string) {
		for h := range heaps {
			ls := out[h]
			if ls == nil {
				ls = &locset{}
				out[h] = ls
			}
			if root != "" {
				ls.roots = append(ls.roots, root)
			}
		}
	}
	whole := func() {
		for h := range heaps {
			ls := out[h]
			if ls == nil {
				ls = &locset{}
				out[h] = ls
			}
			ls.whole = true
		}
	}
	switch x := ins.(type) {
	case *ssa.Alloc, *ssa.MakeSlice, *ssa.MakeMap, *ssa.MakeClosure, *ssa.MakeInterface, *ssa.Convert:
		add("") // only fresh objects are written
		return
	case *ssa.Store:
		switch a := x.Addr.(type) {
		case *ssa.IndexAddr:
			if r, fresh, ok := t.arrRootTerm(li, a.X); ok {
				if fresh {
					add("")
				} else {
					add(r)
				}
				return
			}
		case *ssa.FieldAddr:
			if root, _, _, isElem := elemPath(a); isElem {
				if ia, ok := root.(*ssa.IndexAddr); ok {
					if r, fresh, ok := t.arrRootTerm(li, ia.X); ok {
						if fresh {
							add("")
						} else {
							add(r)
						}
						return
					}
				}
			} else if r, ok := t.objRefTerm(li, a.X); ok {
				add(r)
				return
			} else if al, isAlloc := a.X.(*ssa.Alloc); isAlloc && li.body[al.Block()] {
				add("")
				return
			}
		case *ssa.Parameter, *ssa.FreeVar:
			// *p = v through a pointer that is fixed across the loop: only the cell p points to is written
			if _, isP := under(a.Type()).(*types.Pointer); isP {
				if lv, has := t.lvals[a]; !has || lv.Kind == lvCell {
					add(t.val(a).C[0])
					return
				}
			}
		}
	case *ssa.Call:
		c := &x.Call
		name, sig, kind := t.calleeName(c)
		if kind == "builtin" {
			switch name {
			case "copy", "append":
				if r, fresh, ok := t.arrRootTerm(li, c.Args[0]); ok {
					if fresh {
						add("")
					} else {
						add(r)
					}
					return
				}
			default:
				add("")
				return
			}
			break
		}
		ct := t.eng.contractFor(name)
		if ct == nil {
			break
		}
		// map parameter names to actual arguments
		var pnames []string
		var args []ssa.Value
		if kind == "invoke" {
			pnames = append(pnames, "self")
			args = append(args, c.Value)
		} else if sig.Recv() != nil {
			pnames = append(pnames, sig.Recv().Name())
		}
		for i := 0; i < sig.Params().Len(); i++ {
			pnames = append(pnames, sig.Params().At(i).Name())
		}
		if an, ok := ct.Flags["args"]; ok {
			pnames = strings.Split(strings.ReplaceAll(an, " ", ""), ",")
		}
		args = append(args, c.Args...)
		argOf := func(n string) ssa.Value {
			for i, p := range pnames {
				if p == n && i < len(args) {
					return args[i]
				}
			}
			return nil
		}
		type pend struct {
			heaps []string
			root  string
			whole bool
		}
		var pends []pend
		for _, loc := range ct.Modifies {
			hs := t.locHeapNames(ct, loc, c)
			e, err := parseLoc(loc)
			if err != nil {
				pends = append(pends, pend{hs, "", true})
				continue
			}
			done := false
			switch n := e.(type) {
			case *ast.CallExpr:
				id, _ := n.Fun.(*ast.Ident)
				if id != nil && (id.Name == "elems" || id.Name == "capelems") {
					if pid, ok := n.Args[0].(*ast.Ident); ok {
						if av := argOf(pid.Name); av != nil {
							if r, fresh, ok := t.arrRootTerm(li, av); ok {
								if fresh {
									r = ""
								}
								pends = append(pends, pend{hs, r, false})
								done = true
							}
						}
					}
					// elems(x.f): the array held in a field of a fixed object is not fixed itself -> whole
				}
			case *ast.StarExpr:
				if pid, ok := n.X.(*ast.Ident); ok {
					if av := argOf(pid.Name); av != nil {
						if g, isG := av.(*ssa.Global); isG {
							pends = append(pends, pend{hs, t.eng.globalRef(g), false})
							done = true
						} else if fa, isFA := av.(*ssa.FieldAddr); isFA {
							// *(&x.f) where x is an object fixed across the loop: only that object's field
							if r, ok := t.objRefTerm(li, fa.X); ok {
								pends = append(pends, pend{hs, r, false})
								done = true
							}
						} else if _, isP := under(av.Type()).(*types.Pointer); isP && t.definedOutside(li, av) {
							// *p where p is a pointer fixed across the loop: only that cell
							if lv, has := t.lvals[av]; !has || lv.Kind == lvCell {
								pends = append(pends, pend{hs, t.val(av).C[0], false})
								done = true
							}
						}
					}
				}
			case *ast.Ident:
				if o, isVar := t.eng.pkgOf(ct).Scope().Lookup(n.Name).(*types.Var); isVar {
					pends = append(pends, pend{hs, t.eng.globalRefObj(o), false})
					done = true
				}
			case *ast.SelectorExpr:
				if pid, ok := n.X.(*ast.Ident); ok && argOf(pid.Name) == nil {
					// pkg.Var: a global cell is a fixed root
					for _, tp := range t.eng.typePkgs {
						if tp.Name() == pid.Name {
							if o, isVar := tp.Scope().Lookup(n.Sel.Name).(*types.Var); isVar && !isStruct(o.Type()) {
								pends = append(pends, pend{hs, t.eng.globalRefObj(o), false})
								done = true
							}
							break
						}
					}
				}
				if done {
					break
				}
				if pid, ok := n.X.(*ast.Ident); ok {
					if av := argOf(pid.Name); av != nil {
						if r, ok := t.objRefTerm(li, av); ok {
							// promoted fields through embedded structs at offset 0 share the ref
							pends = append(pends, pend{hs, r, false})
							done = true
						}
					}
				} else if r, ok := t.stableBaseRef(li, ct, n.X, argOf); ok {
					pends = append(pends, pend{hs, r, false})
					done = true
				}
			}
			if !done {
				pends = append(pends, pend{hs, "", true})
			}
		}
		for _, g := range ct.GhostOut {
			if ls := out["G."+g]; ls == nil {
				out["G."+g] = &locset{whole: true}
			} else {
				ls.whole = true
			}
		}
		if ct.Flags["yield"] != "" {
			// interference at this call: the rely locations, evaluated in the state at the loop head
			for _, loc := range t.ct.RelyMod {
				env := t.specEnv(t.st, t.st)
				nerr := len(t.errs)
				l, ok := t.resolveLoc(loc, env, t.st)
				t.errs = t.errs[:nerr]
				if !ok {
					continue
				}
				switch l.kind {
				case locField, locCell, locElems:
					pends = append(pends, pend{l.heaps, l.ref, false})
				default:
					pends = append(pends, pend{l.heaps, "", true})
				}
			}
		}
		touched := map[string]bool{}
		for _, p := range pends {
			for _, h := range p.heaps {
				touched[h] = true
				ls := out[h]
				if ls == nil {
					ls = &locset{}
					out[h] = ls
				}
				if p.whole {
					ls.whole = true
				} else if p.root != "" {
					ls.roots = append(ls.roots, p.root)
				}
			}
		}
		for h := range heaps {
			if !touched[h] {
				if strings.HasPrefix(h, "G.") {
					continue
				}
				if out[h] == nil {
					out[h] = &locset{}
				}
				if h != "$top" && h != "$held" {
					// a heap reported by callEffects but not located: be conservative
					out[h].whole = true
				}
			}
		}
		return
	}
	whole()
}

// stableBaseRef evaluates a location base such as `bf.pseq` (param.field) at the loop head, provided the field
// heap it reads is not modified inside the loop (so the object written is the same in every iteration).
func (t *fnTrans) stableBaseRef(li *loopInfo, ct *Contract, x ast.Expr, argOf func(string) ssa.Value) (string, bool) {
	se, ok := x.(*ast.SelectorExpr)
	if !ok {
		return "", false
	}
	pid, ok := se.X.(*ast.Ident)
	if !ok {
		return "", false
	}
	av := argOf(pid.Name)
	if av == nil {
		return "", false
	}
	base, ok := t.objRefTerm(li, av)
	if !ok {
		return "", false
	}
	pt, ok := under(av.Type()).(*types.Pointer)
	if !ok || !isStruct(pt.Elem()) {
		return "", false
	}
	S := pt.Elem()
	if fieldIndex(S, se.Sel.Name) < 0 {
		return "", false
	}
	ft := under(S).(*types.Struct).Field(fieldIndex(S, se.Sel.Name)).Type()
	if _, isPtr := under(ft).(*types.Pointer); !isPtr {
		return "", false
	}
	hn := fieldHeap(S, se.Sel.Name, "")
	if t.loopMods != nil && t.loopMods[hn] {
		return "", false
	}
	h := t.heapGet(t.st, hn, arrSort("Int"))
	return sel(h, base), true
}

// havocLoop forgets everything the loop body may modify; for heaps whose writes can be
// located (fixed arrays / objects), everything else that existed at the loop head is kept.
func (t *fnTrans) havocLoop(li *loopInfo) {
	mods := map[string]bool{}
	locs := map[string]*locset{}
	type eff struct {
		ins ssa.Instruction
		m   map[string]bool
	}
	var effs []eff
	for b := range li.body {
		for _, ins := range b.Instrs {
			m1 := map[string]bool{}
			t.instrEffects(ins, m1)
			if len(m1) == 0 {
				continue
			}
			for k := range m1 {
				mods[k] = true
			}
			effs = append(effs, eff{ins, m1})
		}
	}
	t.loopMods = mods
	for _, e := range effs {
		nerr := len(t.errs)
		t.locate(li, e.ins, e.m, locs)
		t.errs = t.errs[:nerr]
	}
	t.loopMods = nil
	for _, g := range t.ct.Ghosts {
		if g.Loop == li.ordinal && g.At == "latch" {
			mods["G."+g.Name] = true
			t.eng.heapSort["G."+g.Name] = "(Array Int Int)"
			locs["G."+g.Name] = &locset{whole: true}
		}
	}
	var names []string
	for k := range mods {
		names = append(names, k)
	}
	sort.Strings(names)
	oldTop := t.top(t.st)
	for _, k := range names {
		sortOf, ok := t.eng.heapSort[k]
		if !ok {
			sortOf, ok = heapSortReg[k]
		}
		if !ok {
			if cp, has := heapComp[k]; has && (strings.HasPrefix(k, "E.") || strings.HasPrefix(k, "F.") || strings.HasPrefix(k, "C.")) {
				if strings.HasPrefix(k, "E.") {
					sortOf, ok = arr2Sort(cp.Sort), true
				} else {
					sortOf, ok = arrSort(cp.Sort), true
				}
			}
		}
		if !ok && (strings.HasSuffix(k, ".tag") || strings.HasSuffix(k, ".val") || strings.HasSuffix(k, ".arr") || strings.HasSuffix(k, ".off") || strings.HasSuffix(k, ".len") || strings.HasSuffix(k, ".cap")) {
			// components of interfaces and slices are always Int
			if strings.HasPrefix(k, "E.") {
				sortOf, ok = arr2Sort("Int"), true
			} else if strings.HasPrefix(k, "F.") || strings.HasPrefix(k, "C.") {
				sortOf, ok = arrSort("Int"), true
			}
		}
		if !ok && strings.HasPrefix(k, "E.") {
			// element heaps of scalar element types not met yet (bytes, integers, pointers)
			sortOf, ok = arr2Sort("Int"), true
		}
		if !ok && strings.HasPrefix(k, "B.") {
			// boxed struct components (values stored in interfaces): Int unless registered otherwise
			sortOf, ok = arrSort("Int"), true
		}
		if !ok {
			if k != "$top" && k != "$held" {
				t.errorf("loop %d: cannot havoc heap %s (unknown sort)", li.ordinal, k)
			}
			continue
		}
		old := t.heapGet(t.st, k, sortOf)
		n := t.heapHavoc(t.st, k, sortOf)
		ls := locs[k]
		located := ls != nil && !ls.whole && (strings.HasPrefix(k, "E.") || strings.HasPrefix(k, "F.") || strings.HasPrefix(k, "C.") || strings.HasPrefix(k, "GF."))
		if located {
			var ex []string
			seen := map[string]bool{}
			for _, r := range ls.roots {
				if !seen[r] {
					seen[r] = true
					ex = append(ex, not(eq("a!f", r)))
				}
			}
			body := imp(and(append([]string{le("a!f", oldTop)}, ex...)...), eq(sel(n, "a!f"), sel(old, "a!f")))
			t.assume(fmt.Sprintf("(forall ((a!f Int)) (! %s :pattern ((select %s a!f))))", body, n))
		}
	}
	t.regroup(t.st, names)
	if mods["$top"] {
		t.assume(le(oldTop, t.top(t.st)))
	}
}

func (t *fnTrans) finishEdges(b *ssa.BasicBlock, cond string) {
	switch len(b.Succs) {
	case 1:
		t.setEdge(b, 0, t.reach[b])
	case 2:
		t.setEdge(b, 0, and(t.reach[b], cond))
		t.setEdge(b, 1, and(t.reach[b], not(cond)))
	}
}

func (t *fnTrans) setEdge(b *ssa.BasicBlock, k int, f string) {
	s := b.Succs[k]
	name := t.decl(t.edgeName(b, s, k), "Bool")
	t.assumeRaw(eq(name, f))
	if t.isBackEdge(b, s) {
		li := t.loops[s]
		vars := map[string]Val{}
		// which pred index of s is b?
		for pi, p := range s.Preds {
			if p != b {
				continue
			}
			for _, ins := range s.Instrs {
				phi, ok := ins.(*ssa.Phi)
				if !ok {
					break
				}
				t.bindRangeSlice(phi, vars)
				if phi.Comment != "" {
					vars[phi.Comment] = t.val(phi.Edges[pi])
				}
				vars["$"+phi.Name()] = t.val(phi.Edges[pi])
			}
			break
		}
		t.runGhosts(t.st, "latch", li.ordinal, vars)
		t.checkInvariant(li, t.st, vars, name, "inv-preserve", b.Instrs[len(b.Instrs)-1])
		return
	}
	t.edges[[2]int{b.Index*4 + k, s.Index}] = name
}
