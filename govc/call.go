package main

import (
	"sort"
	"go/token"
	"fmt"
	"go/ast"
	"go/types"
	"strings"

	"golang.org/x/tools/go/ssa"
)

// calleeName returns the canonical contract target for a call, and the signature.
func (t *fnTrans) calleeName(c *ssa.CallCommon) (name string, sig *types.Signature, kind string) {
	if c.IsInvoke() {
		recvT := c.Value.Type()
		name = ifaceMethodName(recvT, c.Method)
		return name, c.Method.Type().(*types.Signature), "invoke"
	}
	switch f := c.Value.(type) {
	case *ssa.Function:
		return f.String(), f.Signature, "static"
	case *ssa.Builtin:
		return f.Name(), nil, "builtin"
	case *ssa.MakeClosure:
		fn := f.Fn.(*ssa.Function)
		return fn.String(), fn.Signature, "closure"
	}
	// dynamic call through a function value: contract on the named func type if any
	T := c.Value.Type()
	if nt, ok := T.(*types.Named); ok {
		return "functype " + nt.Obj().Pkg().Path() + "." + nt.Obj().Name(), under(T).(*types.Signature), "dynamic"
	}
	return "", under(T).(*types.Signature), "dynamic"
}

func ifaceMethodName(recvT types.Type, m *types.Func) string {
	if nt, ok := recvT.(*types.Named); ok && nt.Obj().Pkg() != nil {
		return nt.Obj().Pkg().Path() + "." + nt.Obj().Name() + "." + m.Name()
	}
	if nt, ok := recvT.(*types.Named); ok {
		return nt.Obj().Name() + "." + m.Name() // error.Error
	}
	return "iface." + m.Name()
}

func (t *fnTrans) call(ins ssa.Instruction, c *ssa.CallCommon, res ssa.Value) {
	name, sig, kind := t.calleeName(c)
	if kind == "builtin" {
		t.builtin(ins, c, res, name)
		return
	}
	ct := t.eng.contractFor(name)
	if ct == nil && kind == "invoke" {
		// try the embedded interfaces' declaring interface (e.g. error.Error)
		ct = t.eng.contractFor("iface." + c.Method.Name())
	}
	if ct == nil {
		t.errorf("call to %s: no contract", name)
		if res != nil {
			v := t.freshVal(res.Name(), res.Type())
			t.vals[res] = v
		}
		return
	}
	// bind arguments
	env := &specEnv{t: t, vars: map[string]Val{}, lvs: map[string]*LVal{}, cur: t.st, old: t.st, pkg: t.eng.pkgOf(ct), callee: true}
	var pnames []string
	var args []ssa.Value
	if kind == "invoke" {
		rn := ct.Flags["recv"]
		if rn == "" {
			rn = "self"
		}
		pnames = append(pnames, rn)
		args = append(args, c.Value)
	} else if sig.Recv() != nil {
		rn := sig.Recv().Name()
		if r, ok := ct.Flags["recv"]; ok {
			rn = r
		}
		pnames = append(pnames, rn)
	}
	for i := 0; i < sig.Params().Len(); i++ {
		pn := sig.Params().At(i).Name()
		if pn == "" || pn == "_" {
			pn = fmt.Sprintf("arg%d", i)
		}
		pnames = append(pnames, pn)
	}
	if an, ok := ct.Flags["args"]; ok {
		pnames = strings.Split(strings.ReplaceAll(an, " ", ""), ",")
	}
	args = append(args, c.Args...)
	if kind == "closure" {
		// free variables become visible under their names
		mc := c.Value.(*ssa.MakeClosure)
		fn := mc.Fn.(*ssa.Function)
		for i, fv := range fn.FreeVars {
			env.vars[fv.Name()] = t.val(mc.Bindings[i])
		}
	}
	if len(pnames) != len(args) {
		t.errorf("call to %s: %d parameter names for %d arguments", name, len(pnames), len(args))
		return
	}
	for i, a := range args {
		if lv, ok := t.lvals[a]; ok {
			env.lvs[pnames[i]] = lv
			if lv.Kind == lvObj || lv.Kind == lvCell || lv.Kind == lvArr {
				env.vars[pnames[i]] = Val{a.Type(), []string{lv.Ref}}
			}
			continue
		}
		if g, ok := a.(*ssa.Global); ok {
			env.lvs[pnames[i]] = t.lval(g)
			env.vars[pnames[i]] = Val{a.Type(), []string{t.eng.globalRef(g)}}
			continue
		}
		env.vars[pnames[i]] = t.val(a)
	}
	// receiver nil check
	if kind == "static" && sig.Recv() != nil {
		if _, isPtr := under(sig.Recv().Type()).(*types.Pointer); isPtr {
			if v, ok := env.vars[pnames[0]]; ok {
				t.nilCheck(ins, v.C[0])
			}
		}
	}
	if kind == "invoke" {
		t.oblig("nil", ins, "", not(eq(env.vars[pnames[0]].C[0], "0")), "method call on nil interface")
	}
	// preconditions
	for i, cl := range ct.Requires {
		f := env.evalBool(cl.Expr)
		label := cl.Label
		if label == "" {
			label = fmt.Sprintf("%s.%d", t.eng.shortName(name), i+1)
		} else {
			label = t.eng.shortName(name) + "." + label
		}
		proveAnyway := false
		for _, lb := range strings.Split(t.ct.Flags["provepre"], ",") {
			if lb = strings.TrimSpace(lb); lb != "" && lb == cl.Label {
				proveAnyway = true // flag provepre <labels>: these callee preconditions stay obligations under assumepre
			}
		}
		if t.ct.Flags["assumepre"] != "" && kind == "static" && !proveAnyway {
			// refinement wrapper: the implementation's own preconditions are the stated assumption under which the
			// interface contract is proved for it (listed in the trusted base; see trustedBase)
			t.assume(f)
			continue
		}
		ob := t.oblig("pre", ins, label, f, "precondition of "+t.eng.shortName(name)+": "+cl.Text)
		if ob != nil {
			ob.Tags = cl.Tags
		}
	}
	// preconditions the calling function's own contract attaches to this callee (e.g. monitor discipline)
	for key, cls := range t.ct.AtCall {
		if key != name && key != t.eng.shortName(name) {
			continue
		}
		t.atcallHit[key] = true
		cenv := t.specEnv(t.st, t.entry)
		for _, li := range t.loops {
			if li.body[t.cur] && li.headVars != nil {
				for k, v := range li.headVars {
					if _, ok := cenv.vars[k]; !ok {
						cenv.vars[k] = v
					}
				}
			}
		}
		// the callee's parameters are visible under their names (unless they clash with the caller's)
		for k, v := range env.vars {
			if _, ok := cenv.vars[k]; !ok {
				cenv.vars[k] = v
			}
			// always visible as callee_<name> (recursive calls: the callee's names clash with the caller's)
			cenv.vars["callee_"+k] = v
		}
		t.bindLocals(cenv)
		inLoop := false
		for _, li := range t.loops {
			if li.body[t.cur] {
				inLoop = true
			}
		}
		for i, cl := range cls {
			if (cl.Site == "inloop" && !inLoop) || (cl.Site == "outloop" && inLoop) {
				continue
			}
			label := cl.Label
			if label == "" {
				label = fmt.Sprintf("atcall.%d", i+1)
			}
			ob := t.oblig("pre", ins, label, cenv.evalBool(cl.Expr), "required at calls of "+key+": "+cl.Text)
			if ob != nil {
				ob.Tags = cl.Tags
				ob.Known = cl.Known
			}
		}
		for _, e := range cenv.errs {
			t.errorf("atcall %s: %s", key, e)
		}
	}
	// lock discipline builtins
	t.lockEffect(ins, ct, env)
	// havoc
	oldSt := t.st.clone()
	env.old = oldSt
	env.oldVars = map[string]Val{}
	for k, v := range env.vars {
		env.oldVars[k] = v
	}
	// results (declared before the havoc so that modifies clauses may mention them)
	var rv Val
	if sig.Results().Len() > 0 {
		var RT types.Type = sig.Results()
		if sig.Results().Len() == 1 {
			RT = sig.Results().At(0).Type()
		}
		nm := "call"
		if res != nil {
			nm = res.Name()
		}
		rv = t.freshVal(nm, RT)
		if res != nil {
			t.vals[res] = rv
		}
		bindResults(env, ct, sig, rv)
		// result names are plain values: also visible inside old(...)
		for k, v := range env.vars {
			if _, ok := env.oldVars[k]; !ok {
				env.oldVars[k] = v
			}
		}
	}
	// allocation may have happened. The allocation mark is advanced BEFORE the callee's frame is havocked: the range
	// axiom of a havocked heap ("references stored here do not exceed the allocation mark") must speak about the mark
	// after the call - with the old mark, a callee that stores a freshly allocated reference into a heap it modifies
	// made the rest of the caller's path contradictory, hence vacuously verified (found with -covers: the success
	// return of Server.getSession after Session.Init was dead).
	if !ct.Pure {
		oldTop := t.top(oldSt)
		nt := t.heapHavoc(t.st, "$top", "Int")
		t.assume(le(oldTop, nt))
	}
	t.applyModifies(ct, env, oldSt)
	for _, g := range ct.GhostOut {
		t.eng.heapSort["G."+g] = "(Array Int Int)"
		t.heapGet(t.st, "G."+g, "(Array Int Int)")
		t.heapHavoc(t.st, "G."+g, "(Array Int Int)")
	}
	env.cur = t.st
	if rv.T != nil {
		t.assume(t.valueFacts(t.st, rv))
	}
	for _, cl := range ct.Ensures {
		if cl.Known != "" {
			continue
		}
		for _, pe := range splitConj(cl.Expr) {
			t.assume(env.evalBool(pe))
		}
	}
	for _, e := range env.errs {
		t.errorf("contract of %s at call site: %s", name, e)
	}
	// facts the calling function's contract assumes about this callee (trusted; old() = state before the call)
	for key, cls := range t.ct.AtCallAssume {
		if key != name && key != t.eng.shortName(name) {
			continue
		}
		t.atcallHit[key] = true
		aenv := t.specEnv(t.st, oldSt)
		for _, li := range t.loops {
			if li.body[t.cur] && li.headVars != nil {
				for k, v := range li.headVars {
					if _, ok := aenv.vars[k]; !ok {
						aenv.vars[k] = v
					}
				}
			}
		}
		for k, v := range env.vars {
			if _, ok := aenv.vars[k]; !ok {
				aenv.vars[k] = v
			}
		}
		for _, cl := range cls {
			t.assume(aenv.evalBool(cl.Expr))
		}
		for _, e := range aenv.errs {
			t.errorf("atcall %s assumes: %s", key, e)
		}
	}
	if ct.Flags["yield"] != "" {
		t.interfere(ins)
	}
}

// interfere: other goroutines run (rely of the current function): havoc what they may modify and
// assume the declared two-state facts about that change.
func (t *fnTrans) interfere(ins ssa.Instruction) {
	if len(t.ct.RelyMod) == 0 && len(t.ct.RelyEns) == 0 {
		return
	}
	before := t.st.clone()
	env := t.specEnv(t.st, before)
	// loop variables visible by name
	for _, li := range t.loops {
		if li.body[t.cur] && li.headVars != nil {
			for k, v := range li.headVars {
				if _, ok := env.vars[k]; !ok {
					env.vars[k] = v
				}
			}
		}
	}
	for _, loc := range t.ct.RelyMod {
		t.havocLoc(loc, env, before)
	}
	env.cur = t.st
	env.old = before
	for _, cl := range t.ct.RelyEns {
		for _, pe := range splitConj(cl.Expr) {
			t.assume(env.evalBool(pe))
		}
	}
	for _, e := range env.errs {
		t.errorf("rely clause: %s", e)
	}
}

func bindResults(env *specEnv, ct *Contract, sig *types.Signature, rv Val) {
	n := sig.Results().Len()
	if n == 1 {
		env.vars["result"] = rv
	}
	k := 0
	for i := 0; i < n; i++ {
		rt := sig.Results().At(i).Type()
		m := ncomps(rt)
		name := sig.Results().At(i).Name()
		if i < len(ct.Results) {
			name = ct.Results[i]
		}
		if name != "" && name != "_" {
			env.vars[name] = Val{rt, rv.C[k : k+m]}
		}
		env.vars[fmt.Sprintf("result%d", i)] = Val{rt, rv.C[k : k+m]}
		k += m
	}
}

// parseLoc parses a modifies location.
func parseLoc(s string) (ast.Expr, error) {
	return parseSpecExpr(s)
}

// applyModifies havocs the locations a callee may write.
func (t *fnTrans) applyModifies(ct *Contract, env *specEnv, oldSt *State) {
	for _, loc := range ct.Modifies {
		t.havocLoc(loc, env, oldSt)
	}
	t.keepPrivateLocals(oldSt)
}

// isPrivateAlloc: a local variable whose address never leaves the function (only field/element addressing,
// loads and stores through it): no callee and no other goroutine can change it.
func isPrivateAlloc(a *ssa.Alloc) bool {
	var okRef func(v ssa.Value, depth int) bool
	okRef = func(v ssa.Value, depth int) bool {
		if v.Referrers() == nil || depth > 4 {
			return false
		}
		for _, r := range *v.Referrers() {
			switch x := r.(type) {
			case *ssa.DebugRef:
			case *ssa.UnOp:
				if x.Op != token.MUL {
					return false
				}
			case *ssa.Store:
				if x.Addr != v {
					return false // the address itself is stored somewhere
				}
			case *ssa.FieldAddr:
				if !okRef(x, depth+1) {
					return false
				}
			default:
				return false
			}
		}
		return true
	}
	return okRef(a, 0)
}

// keepPrivateLocals: a whole-heap havoc (allfields(T), heap("...")) does not reach the private locals of
// the calling function.
func (t *fnTrans) keepPrivateLocals(oldSt *State) {
	var allocs []*ssa.Alloc
	for v, lv := range t.lvals {
		if a, ok := v.(*ssa.Alloc); ok && lv.Kind == lvObj && isStruct(lv.T) {
			allocs = append(allocs, a)
		}
	}
	sort.Slice(allocs, func(i, j int) bool { return allocs[i].Name() < allocs[j].Name() })
	for _, a := range allocs {
		lv := t.lvals[a]
		if t.privAlloc == nil {
			t.privAlloc = map[*ssa.Alloc]bool{}
		}
		priv, seen := t.privAlloc[a]
		if !seen {
			priv = isPrivateAlloc(a)
			t.privAlloc[a] = priv
		}
		if !priv {
			continue
		}
		var l location
		t.collectStructHeaps(lv.T, &l)
		for i, hn := range l.heaps {
			cur, has := t.st.heaps[hn]
			if !has {
				continue
			}
			old := t.heapGet(oldSt, hn, l.sorts[i])
			if cur == old {
				continue
			}
			t.assume(eq(sel(cur, lv.Ref), sel(old, lv.Ref)))
		}
	}
}

func (t *fnTrans) regroupLoc(l location) {
	if l.kind == locAllField || l.kind == locAllElems || l.kind == locHeap || l.kind == locFresh {
		t.regroup(t.st, l.heaps)
	}
}

type locKind int

const (
	locField locKind = iota
	locElems
	locCell
	locMap
	locAllField
	locAllElems
	locHeap
	locFresh // freshobjs(T) / freshelems(T): only objects / arrays allocated during the call (nothing that existed before)
)

type location struct {
	kind   locKind
	heaps  []string // heap names
	sorts  []string
	ref    string // object ref / array id / map ref
	lo, hi string // element range (absolute indices) for locElems; "" = whole array
}

// resolveLoc evaluates a modifies location in the pre-state.
func (t *fnTrans) resolveLoc(loc string, env *specEnv, pre *State) (l location, ok bool) {
	x, err := parseLoc(loc)
	if err != nil {
		t.errorf("modifies %q: %v", loc, err)
		return
	}
	savedCur := env.cur
	env.cur = pre
	defer func() { env.cur = savedCur }()
	switch n := x.(type) {
	case *ast.CallExpr:
		id, _ := n.Fun.(*ast.Ident)
		if id == nil {
			break
		}
		switch id.Name {
		case "elems":
			s := env.eval(n.Args[0])
			sl, isSl := under(s.T).(*types.Slice)
			if !isSl {
				t.errorf("modifies elems(%s): not a slice", exprString(n.Args[0]))
				return
			}
			l.kind = locElems
			l.ref = s.C[0]
			if len(n.Args) == 3 {
				// result-dependent bounds are evaluated in the post environment by the caller
				env.cur = savedCur
				l.lo = add(s.C[1], env.eval(n.Args[1]).C[0])
				l.hi = add(s.C[1], env.eval(n.Args[2]).C[0])
				env.cur = pre
			} else {
				l.lo, l.hi = s.C[1], add(s.C[1], s.C[2])
			}
			for _, c := range flatten(sl.Elem()) {
				l.heaps = append(l.heaps, elemHeap(sl.Elem(), c.Suffix))
				l.sorts = append(l.sorts, arr2Sort(c.Sort))
			}
			return l, true
		case "capelems":
			// whole capacity of the slice: [off, off+cap)
			s := env.eval(n.Args[0])
			sl := under(s.T).(*types.Slice)
			l.kind = locElems
			l.ref = s.C[0]
			l.lo, l.hi = s.C[1], add(s.C[1], s.C[3])
			for _, c := range flatten(sl.Elem()) {
				l.heaps = append(l.heaps, elemHeap(sl.Elem(), c.Suffix))
				l.sorts = append(l.sorts, arr2Sort(c.Sort))
			}
			return l, true
		case "gfield":
			v := env.eval(n.Args[0])
			bl, isLit := n.Args[1].(*ast.BasicLit)
			if !isLit {
				t.errorf("modifies gfield: second argument must be a string literal")
				return
			}
			hn := "GF." + strings.Trim(bl.Value, "\"")
			t.eng.heapSort[hn] = "(Array Int Int)"
			l.kind = locCell
			l.ref = v.C[0]
			if _, isIface := under(v.T).(*types.Interface); isIface {
				l.ref = v.C[1]
			}
			l.heaps = []string{hn}
			l.sorts = []string{"(Array Int Int)"}
			return l, true
		case "mapof":
			m := env.eval(n.Args[0])
			mt, isM := under(m.T).(*types.Map)
			if !isM {
				t.errorf("modifies mapof: not a map")
				return
			}
			l.kind = locMap
			l.ref = m.C[0]
			dn, ds := mapDomHeap(mt)
			l.heaps = append(l.heaps, dn)
			l.sorts = append(l.sorts, ds)
			for _, c := range flatten(mt.Elem()) {
				vn, vs := mapValHeap(mt, c.Suffix, c.Sort)
				l.heaps = append(l.heaps, vn)
				l.sorts = append(l.sorts, vs)
			}
			return l, true
		case "heap":
			// heap("F.pkg.S.f") raw heap name prefix
			if bl, ok := n.Args[0].(*ast.BasicLit); ok {
				prefix := strings.Trim(bl.Value, "\"")
				l.kind = locHeap
				for hn, hs := range t.eng.heapSort {
					if hn == prefix || strings.HasPrefix(hn, prefix+".") {
						l.heaps = append(l.heaps, hn)
						l.sorts = append(l.sorts, hs)
					}
				}
				if len(l.heaps) == 0 {
					// not seen yet: derive names and sorts from the type information
					for _, hs := range t.eng.fieldHeapsByName(prefix) {
						l.heaps = append(l.heaps, hs[0])
						l.sorts = append(l.sorts, hs[1])
					}
				}
				if len(l.heaps) == 0 {
					hs := t.eng.heapSort[prefix]
					if hs == "" && strings.HasPrefix(prefix, "GF.") {
						hs = arrSort("Int")
						t.eng.heapSort[prefix] = hs
					}
					l.heaps = append(l.heaps, prefix)
					l.sorts = append(l.sorts, hs)
				}
				return l, true
			}
		case "fields":
			v := env.eval(n.Args[0])
			pt, isP := under(v.T).(*types.Pointer)
			if !isP || !isStruct(pt.Elem()) {
				t.errorf("modifies fields(x): x must point to a struct")
				return
			}
			l.kind = locField
			l.ref = v.C[0]
			t.collectStructHeaps(pt.Elem(), &l)
			return l, true
		case "allfields":
			// allfields(T): every object of struct type T
			T := env.typeExpr(n.Args[0])
			if T == nil {
				t.errorf("modifies allfields: unknown type")
				return
			}
			l.kind = locAllField
			t.collectStructHeaps(T, &l)
			return l, true
		case "freshobjs":
			// freshobjs(T): the fields of objects of struct type T allocated by the callee (it may initialise what it
			// allocates); says nothing about objects that existed before the call
			T := env.typeExpr(n.Args[0])
			if T == nil {
				t.errorf("modifies freshobjs: unknown type")
				return
			}
			l.kind = locFresh
			t.collectStructHeaps(T, &l)
			return l, true
		case "freshelems":
			// freshelems(T): the elements of arrays of element type T allocated by the callee
			T := env.typeExpr(n.Args[0])
			if T == nil {
				t.errorf("modifies freshelems: unknown type")
				return
			}
			l.kind = locFresh
			for _, c := range flatten(T) {
				l.heaps = append(l.heaps, elemHeap(T, c.Suffix))
				l.sorts = append(l.sorts, arr2Sort(c.Sort))
			}
			return l, true
		case "allmaps":
			// allmaps(map[K]V): every map of that type
			T := env.typeExpr(n.Args[0])
			mt, isM := under(T).(*types.Map)
			if T == nil || !isM {
				t.errorf("modifies allmaps: not a map type")
				return
			}
			l.kind = locAllElems
			dn, ds := mapDomHeap(mt)
			l.heaps = append(l.heaps, dn)
			l.sorts = append(l.sorts, ds)
			for _, c := range flatten(mt.Elem()) {
				vn, vs := mapValHeap(mt, c.Suffix, c.Sort)
				l.heaps = append(l.heaps, vn)
				l.sorts = append(l.sorts, vs)
			}
			return l, true
		case "allelems":
			T := env.typeExpr(n.Args[0])
			if T == nil {
				t.errorf("modifies allelems: unknown type")
				return
			}
			l.kind = locAllElems
			for _, c := range flatten(T) {
				l.heaps = append(l.heaps, elemHeap(T, c.Suffix))
				l.sorts = append(l.sorts, arr2Sort(c.Sort))
			}
			return l, true
		}
	case *ast.SelectorExpr:
		// pkg.Var
		if id, isId := n.X.(*ast.Ident); isId {
			if _, isVar := env.vars[id.Name]; !isVar {
				if _, isLv := env.lvs[id.Name]; !isLv {
					if p := env.findPkg(id.Name); p != nil {
						if o, ok := p.Scope().Lookup(n.Sel.Name).(*types.Var); ok {
							ref := t.eng.globalRefObj(o)
							if isStruct(o.Type()) {
								l.kind = locField
								l.ref = ref
								t.collectStructHeaps(o.Type(), &l)
								return l, true
							}
							return t.lvalLoc(&LVal{Kind: lvCell, Ref: ref, T: o.Type()}), true
						}
					}
				}
			}
		}
		// x.f
		var base Val
		if id, isId := n.X.(*ast.Ident); isId {
			if lv, has := env.lvs[id.Name]; has && lv.Kind == lvObj {
				base = Val{types.NewPointer(lv.T), []string{lv.Ref}}
			}
		}
		if base.T == nil {
			base = env.eval(n.X)
		}
		pt, isP := under(base.T).(*types.Pointer)
		if !isP {
			t.errorf("modifies %s: base is not a pointer", loc)
			return
		}
		T := pt.Elem()
		obj, path, _ := types.LookupFieldOrMethod(T, true, env.pkg, n.Sel.Name)
		if obj == nil {
			if nt, isN := T.(*types.Named); isN && nt.Obj().Pkg() != nil {
				obj, path, _ = types.LookupFieldOrMethod(T, true, nt.Obj().Pkg(), n.Sel.Name)
			}
		}
		if obj == nil {
			t.errorf("modifies %s: no such field", loc)
			return
		}
		ref := base.C[0]
		S := T
		for k, i := range path {
			su := under(S).(*types.Struct)
			f := su.Field(i)
			if k == len(path)-1 {
				l.kind = locField
				if isStruct(f.Type()) {
					r := ref
					if i != 0 {
						r = subref(ref, S, i)
					}
					l.ref = r
					t.collectStructHeaps(f.Type(), &l)
					return l, true
				}
				l.ref = ref
				for _, c := range flatten(f.Type()) {
					l.heaps = append(l.heaps, fieldHeap(S, f.Name(), c.Suffix))
					l.sorts = append(l.sorts, arrSort(c.Sort))
				}
				return l, true
			}
			if i != 0 {
				ref = subref(ref, S, i)
			}
			S = f.Type()
		}
	case *ast.StarExpr:
		if id, isId := n.X.(*ast.Ident); isId {
			if lv, has := env.lvs[id.Name]; has {
				return t.lvalLoc(lv), true
			}
		}
		v := env.eval(n.X)
		if pt, isP := under(v.T).(*types.Pointer); isP {
			if isStruct(pt.Elem()) {
				l.kind = locField
				l.ref = v.C[0]
				t.collectStructHeaps(pt.Elem(), &l)
				return l, true
			}
			return t.lvalLoc(&LVal{Kind: lvCell, Ref: v.C[0], T: pt.Elem()}), true
		}
	case *ast.Ident:
		// a package-level variable
		if o, isVar := env.pkg.Scope().Lookup(n.Name).(*types.Var); isVar {
			ref := t.eng.globalRefObj(o)
			if isStruct(o.Type()) {
				l.kind = locField
				l.ref = ref
				t.collectStructHeaps(o.Type(), &l)
				return l, true
			}
			return t.lvalLoc(&LVal{Kind: lvCell, Ref: ref, T: o.Type()}), true
		}
		if n.Name == "$held" {
			l.kind = locHeap
			l.heaps = []string{"$held"}
			l.sorts = []string{"(Array Int Int)"}
			return l, true
		}
	}
	t.errorf("unsupported modifies location %q", loc)
	return
}

func (t *fnTrans) collectStructHeaps(S types.Type, l *location) {
	su := under(S).(*types.Struct)
	for i := 0; i < su.NumFields(); i++ {
		f := su.Field(i)
		if isStruct(f.Type()) {
			if i == 0 {
				t.collectStructHeaps(f.Type(), l)
			}
			// non-first nested structs live at a different ref; callers must name them explicitly
			continue
		}
		for _, c := range flatten(f.Type()) {
			l.heaps = append(l.heaps, fieldHeap(S, f.Name(), c.Suffix))
			l.sorts = append(l.sorts, arrSort(c.Sort))
		}
	}
}

func (t *fnTrans) lvalLoc(lv *LVal) location {
	var l location
	switch lv.Kind {
	case lvField:
		l.kind = locField
		l.ref = lv.Ref
		for _, c := range flatten(lv.T) {
			l.heaps = append(l.heaps, fieldHeap(lv.S, lv.Field, c.Suffix))
			l.sorts = append(l.sorts, arrSort(c.Sort))
		}
	case lvCell:
		l.kind = locCell
		l.ref = lv.Ref
		for _, c := range flatten(lv.T) {
			l.heaps = append(l.heaps, cellHeap(lv.T, c.Suffix))
			l.sorts = append(l.sorts, arrSort(c.Sort))
		}
	case lvObj:
		l.kind = locField
		l.ref = lv.Ref
		t.collectStructHeaps(lv.S, &l)
	case lvElem:
		l.kind = locElems
		l.ref = lv.Ref
		l.lo, l.hi = lv.Idx, add(lv.Idx, "1")
		for _, c := range flatten(lv.T) {
			l.heaps = append(l.heaps, elemHeap(lv.ElemT, lv.Path+c.Suffix))
			l.sorts = append(l.sorts, arr2Sort(c.Sort))
		}
	}
	return l
}

func (t *fnTrans) havocLoc(loc string, env *specEnv, pre *State) {
	l, ok := t.resolveLoc(loc, env, pre)
	if !ok {
		return
	}
	for i, hn := range l.heaps {
		hs := l.sorts[i]
		if hs == "" {
			t.errorf("modifies %q: unknown heap %s", loc, hn)
			continue
		}
		t.eng.heapSort[hn] = hs
		old := t.heapGet(t.st, hn, hs)
		switch l.kind {
		case locField, locCell:
			inner := strings.TrimSuffix(strings.TrimPrefix(hs, "(Array Int "), ")")
			fv := t.freshConst("hv", inner)
			if fr, ok := t.eng.cs.FieldRange[hn]; ok && inner == "Int" {
				// the assumed value range of this field (fieldrange) also holds for the value a callee leaves in it
				t.assumeRaw(and(le(fr[0], fv), le(fv, fr[1])))
			}
			t.heapSet(t.st, hn, hs, sto(old, l.ref, fv))
		case locMap:
			inner := strings.TrimSuffix(strings.TrimPrefix(hs, "(Array Int "), ")")
			fv := t.freshConst("hv", inner)
			t.heapSet(t.st, hn, hs, sto(old, l.ref, fv))
		case locElems:
			inner := strings.TrimSuffix(strings.TrimPrefix(hs, "(Array Int "), ")")
			na := t.freshConst("ha", inner)
			t.nfr++
			bv := q(fmt.Sprintf("j!q%d", t.nfr))
			hb := imp(or(lt(bv, l.lo), le(l.hi, bv)), eq(sel(na, bv), sel(sel(old, l.ref), bv)))
			hq := fmt.Sprintf("(forall ((%s Int)) (! %s :pattern ((select %s %s))))", bv, hb, na, bv)
			regFinite(hq, bv, sub(l.lo, "4"), hb)
			t.assume(hq)
			t.heapSet(t.st, hn, hs, sto(old, l.ref, na))
		case locAllField, locAllElems, locHeap:
			t.heapHavoc(t.st, hn, hs)
		case locFresh:
			// new version, equal to the old one at every reference that existed before the call
			if old == t.heapGet(pre, hn, hs) || true {
				n := t.heapHavoc(t.st, hn, hs)
				t.assume(fmt.Sprintf("(forall ((a!f Int)) (! (=> (<= a!f %s) (= (select %s a!f) (select %s a!f))) :pattern ((select %s a!f))))", t.top(pre), n, old, n))
			}
		}
	}
	t.regroupLoc(l)
}

func (t *fnTrans) callEffects(c *ssa.CallCommon, mods map[string]bool) {
	name, _, kind := t.calleeName(c)
	if kind == "builtin" {
		switch name {
		case "append":
			mods["$top"] = true
			if sl, ok := under(c.Args[0].Type()).(*types.Slice); ok {
				for _, cc := range flatten(sl.Elem()) {
					mods[elemHeap(sl.Elem(), cc.Suffix)] = true
				}
			}
		case "copy":
			if sl, ok := under(c.Args[0].Type()).(*types.Slice); ok {
				for _, cc := range flatten(sl.Elem()) {
					mods[elemHeap(sl.Elem(), cc.Suffix)] = true
				}
			}
		case "delete":
			mt := under(c.Args[0].Type()).(*types.Map)
			dn, _ := mapDomHeap(mt)
			mods[dn] = true
		}
		return
	}
	ct := t.eng.contractFor(name)
	if ct == nil {
		return
	}
	if !ct.Pure {
		mods["$top"] = true
	}
	for _, loc := range ct.Modifies {
		for _, hn := range t.locHeapNames(ct, loc, c) {
			mods[hn] = true
		}
	}
	if lk := ct.Flags["lock"]; lk != "" {
		mods["$held"] = true
	}
	if ct.Flags["yield"] != "" {
		// interference: everything the rely may modify
		for _, loc := range t.ct.RelyMod {
			env := t.specEnv(t.entry, t.entry)
			nerr := len(t.errs)
			if l, ok := t.resolveLoc(loc, env, t.entry); ok {
				for _, hn := range l.heaps {
					mods[hn] = true
				}
			}
			t.errs = t.errs[:nerr]
		}
	}
	for _, g := range ct.GhostOut {
		mods["G."+g] = true
		t.eng.heapSort["G."+g] = "(Array Int Int)"
	}
}

// locHeapNames: static over-approximation of the heap names a location touches.
func (t *fnTrans) locHeapNames(ct *Contract, loc string, c *ssa.CallCommon) []string {
	// evaluate with a throw-away environment: we only need types, so bind params to dummy values
	name, sig, kind := t.calleeName(c)
	_ = name
	env := &specEnv{t: t, vars: map[string]Val{}, lvs: map[string]*LVal{}, cur: t.entry, old: t.entry, pkg: t.eng.pkgOf(ct)}
	var pnames []string
	var ptypes []types.Type
	if kind == "invoke" {
		rn := ct.Flags["recv"]
		if rn == "" {
			rn = "self"
		}
		pnames = append(pnames, rn)
		ptypes = append(ptypes, c.Value.Type())
	} else if sig.Recv() != nil {
		rn := sig.Recv().Name()
		if r, ok := ct.Flags["recv"]; ok {
			rn = r
		}
		pnames = append(pnames, rn)
		ptypes = append(ptypes, sig.Recv().Type())
	}
	for i := 0; i < sig.Params().Len(); i++ {
		pn := sig.Params().At(i).Name()
		if pn == "" || pn == "_" {
			pn = fmt.Sprintf("arg%d", i)
		}
		pnames = append(pnames, pn)
		ptypes = append(ptypes, sig.Params().At(i).Type())
	}
	if an, ok := ct.Flags["args"]; ok {
		pnames = strings.Split(strings.ReplaceAll(an, " ", ""), ",")
	}
	for i := range pnames {
		if i < len(ptypes) {
			env.vars[pnames[i]] = Val{ptypes[i], zeroComps(ptypes[i])}
		}
	}
	// results may be mentioned in ranges
	if sig.Results().Len() > 0 {
		var RT types.Type = sig.Results()
		if sig.Results().Len() == 1 {
			RT = sig.Results().At(0).Type()
		}
		bindResults(env, ct, sig, Val{RT, zeroComps(RT)})
	}
	// pointer args that are l-values: give them their real l-value so *p resolves
	args := c.Args
	off := len(pnames) - len(args)
	for i, a := range args {
		if lv, ok := t.lvals[a]; ok && off+i < len(pnames) {
			env.lvs[pnames[off+i]] = lv
		} else if fa, ok := a.(*ssa.FieldAddr); ok && off+i < len(pnames) {
			// not yet translated (pre-pass): synthesise from types
			S := deref(fa.X.Type())
			f := under(S).(*types.Struct).Field(fa.Field)
			if isStruct(f.Type()) {
				env.lvs[pnames[off+i]] = &LVal{Kind: lvObj, Ref: "0", S: f.Type(), T: f.Type()}
			} else {
				env.lvs[pnames[off+i]] = &LVal{Kind: lvField, Ref: "0", S: S, Field: f.Name(), T: f.Type()}
			}
		} else if g, ok := a.(*ssa.Global); ok && off+i < len(pnames) {
			env.lvs[pnames[off+i]] = t.lval(g)
		}
	}
	nerr := len(t.errs)
	l, ok := t.resolveLoc(loc, env, t.entry)
	t.errs = t.errs[:nerr]
	if !ok {
		return nil
	}
	for i, hn := range l.heaps {
		if i < len(l.sorts) && l.sorts[i] != "" {
			if _, known := t.eng.heapSort[hn]; !known {
				t.eng.heapSort[hn] = l.sorts[i]
			}
		}
	}
	return l.heaps
}

// ---------- builtins ----------

func (t *fnTrans) builtin(ins ssa.Instruction, c *ssa.CallCommon, res ssa.Value, name string) {
	switch name {
	case "len", "cap":
		v := t.val(c.Args[0])
		switch under(c.Args[0].Type()).(type) {
		case *types.Slice:
			k := 2
			if name == "cap" {
				k = 3
			}
			t.vals[res] = Val{res.Type(), []string{v.C[k]}}
		case *types.Basic:
			t.define(res, res.Type(), []string{"(strlen " + v.C[0] + ")"})
			t.assume(le("0", t.vals[res].C[0]))
		case *types.Map:
			mt := under(c.Args[0].Type()).(*types.Map)
			dn, ds := mapDomHeap(mt)
			t.define(res, res.Type(), []string{"(mapcard " + sel(t.heapGet(t.st, dn, ds), v.C[0]) + ")"})
			t.assume(le("0", t.vals[res].C[0]))
		default:
			t.errorf("len/cap of %v", c.Args[0].Type())
		}
	case "copy":
		d, s := t.val(c.Args[0]), t.val(c.Args[1])
		if isString(c.Args[1].Type()) {
			t.errorf("copy from string unsupported")
			return
		}
		sl := under(c.Args[0].Type()).(*types.Slice)
		n := t.freshConst("copyn", "Int")
		t.assumeRaw(eq(n, ite(le(d.C[2], s.C[2]), d.C[2], s.C[2])))
		for _, cc := range flatten(sl.Elem()) {
			hn := elemHeap(sl.Elem(), cc.Suffix)
			hs := arr2Sort(cc.Sort)
			old := t.heapGet(t.st, hn, hs)
			na := t.freshConst("cp", arrSort(cc.Sort))
			t.nfr++
			bv := q(fmt.Sprintf("j!q%d", t.nfr))
			inr := and(le(d.C[1], bv), lt(bv, add(d.C[1], n)))
			srcv := sel(sel(old, s.C[0]), add(s.C[1], sub(bv, d.C[1])))
			cb := eq(sel(na, bv), ite(inr, srcv, sel(sel(old, d.C[0]), bv)))
			cq := fmt.Sprintf("(forall ((%s Int)) (! %s :pattern ((select %s %s))))", bv, cb, na, bv)
			regFinite(cq, bv, sub(d.C[1], "2"), cb)
			t.assume(cq)
			// a nil destination (arr 0) copies nothing: n = 0, store is harmless
			t.heapSet(t.st, hn, hs, sto(old, d.C[0], na))
		}
		if res != nil {
			t.vals[res] = Val{res.Type(), []string{n}}
		}
	case "append":
		t.appendBuiltin(ins, c, res)
	case "delete":
		mt := under(c.Args[0].Type()).(*types.Map)
		m := t.val(c.Args[0]).C[0]
		k := t.mapKey(t.val(c.Args[1]))
		dn, ds := mapDomHeap(mt)
		h := t.heapGet(t.st, dn, ds)
		t.heapSet(t.st, dn, ds, sto(h, m, sto(sel(h, m), k, "false")))
	case "close":
		// channels are not modelled; closing is an opaque effect
	case "min", "max":
		a, b := t.val(c.Args[0]).C[0], t.val(c.Args[1]).C[0]
		if name == "min" {
			t.define(res, res.Type(), []string{ite(le(a, b), a, b)})
		} else {
			t.define(res, res.Type(), []string{ite(le(a, b), b, a)})
		}
	case "recover":
		t.vals[res] = Val{res.Type(), []string{"0", "0"}}
	default:
		t.errorf("unsupported builtin %s", name)
	}
}

func (t *fnTrans) appendBuiltin(ins ssa.Instruction, c *ssa.CallCommon, res ssa.Value) {
	s, a := t.val(c.Args[0]), t.val(c.Args[1])
	sl := under(c.Args[0].Type()).(*types.Slice)
	if isString(c.Args[1].Type()) {
		t.errorf("append(…, string...) unsupported")
		return
	}
	ls, la := s.C[2], a.C[2]
	inplace := t.freshConst("inplace", "Bool")
	t.assumeRaw(eq(inplace, le(add(ls, la), s.C[3])))
	newArr := t.alloc(t.st)
	newCap := t.freshConst("ncap", "Int")
	t.assume(and(le(add(ls, la), newCap), le(newCap, maxLenStr)))
	for _, cc := range flatten(sl.Elem()) {
		hn := elemHeap(sl.Elem(), cc.Suffix)
		hs := arr2Sort(cc.Sort)
		old := t.heapGet(t.st, hn, hs)
		// in place: A1 over arr(s)
		a1 := t.freshConst("ap", arrSort(cc.Sort))
		t.nfr++
		bv := q(fmt.Sprintf("j!q%d", t.nfr))
		lo1 := add(s.C[1], ls)
		in1 := and(le(lo1, bv), lt(bv, add(lo1, la)))
		ab := eq(sel(a1, bv), ite(in1, sel(sel(old, a.C[0]), add(a.C[1], sub(bv, lo1))), sel(sel(old, s.C[0]), bv)))
		aq := fmt.Sprintf("(forall ((%s Int)) (! %s :pattern ((select %s %s))))", bv, ab, a1, bv)
		regFinite(aq, bv, s.C[1], ab)
		t.assume(aq)
		// fresh: A2
		a2 := t.freshConst("ap", arrSort(cc.Sort))
		t.nfr++
		bv2 := q(fmt.Sprintf("j!q%d", t.nfr))
		in2a := and(le("0", bv2), lt(bv2, ls))
		in2b := and(le(ls, bv2), lt(bv2, add(ls, la)))
		z := "0"
		if cc.Sort == "Bool" {
			z = "false"
		}
		ab2 := eq(sel(a2, bv2), ite(in2a, sel(sel(old, s.C[0]), add(s.C[1], bv2)), ite(in2b, sel(sel(old, a.C[0]), add(a.C[1], sub(bv2, ls))), z)))
		aq2 := fmt.Sprintf("(forall ((%s Int)) (! %s :pattern ((select %s %s))))", bv2, ab2, a2, bv2)
		regFinite(aq2, bv2, "0", ab2)
		t.assume(aq2)
		t.heapSet(t.st, hn, hs, ite(inplace, sto(old, s.C[0], a1), sto(old, newArr, a2)))
	}
	t.define(res, res.Type(), []string{
		ite(inplace, s.C[0], newArr), ite(inplace, s.C[1], "0"), add(ls, la), ite(inplace, s.C[3], newCap)})
}

// ---------- return ----------

func (t *fnTrans) ret(x *ssa.Return) {
	sig := t.fn.Signature
	env := t.specEnv(t.st, t.entry)
	if n := len(x.Results); n > 0 {
		var comps []string
		for _, r := range x.Results {
			comps = append(comps, t.val(r).C...)
		}
		var RT types.Type = sig.Results()
		if n == 1 {
			RT = sig.Results().At(0).Type()
		}
		bindResults(env, t.ct, sig, Val{RT, comps})
	}
	for i, cl := range t.ct.Ensures {
		label := cl.Label
		if label == "" {
			label = fmt.Sprintf("%d", i+1)
		}
		if strings.HasPrefix(label, "assumed-") {
			// an explicitly assumed postcondition (e.g. "this error is not a CONNACK code", which would need contracts on
			// the error values of the standard library): callers assume it, the body is not checked against it, and
			// every such clause is listed in the trusted base
			continue
		}
		if strings.HasPrefix(label, "ghostdef") {
			// defines ghost bookkeeping (e.g. the ghost clock) that has no counterpart in the code:
			// assumed by callers, not an obligation of the body
			continue
		}
		parts := splitConj(cl.Expr)
		for pi, pe := range parts {
			f := env.evalBool(pe)
			lb := label
			desc := "ensures " + cl.Text
			if len(parts) > 1 {
				lb = fmt.Sprintf("%s.%d", label, pi+1)
				desc = "ensures (part) " + exprString(pe)
			}
			// a return block reached over several edges: one obligation per incoming edge
			// (fixes which of the merged heap versions is current; much easier for the solvers)
			guards := []string{t.guard()}
			suffix := []string{""}
			if inc := t.incomingEdges(x.Block()); len(inc) > 1 && strings.Contains(f, "(forall ") {
				guards, suffix = nil, nil
				for _, e := range inc {
					guards = append(guards, e.edge)
					suffix = append(suffix, fmt.Sprintf("@b%d", e.pred))
				}
			}
			for gi, g := range guards {
				ob := t.obligG("post", x, lb+suffix[gi], g, f, desc)
				if ob != nil {
					ob.Tags = cl.Tags
					ob.Known = cl.Known
					ob.Clause = cl
					ob.Part = pe
				}
			}
		}
	}
	for _, e := range env.errs {
		t.errorf("ensures: %s", e)
	}
	t.frameCheck(x, env)
	t.lockBalance(x)
	t.retBlocks = append(t.retBlocks, t.reach[x.Block()])
	rp := ""
	if x.Pos().IsValid() {
		pp := t.eng.fset.Position(x.Pos())
		rp = fmt.Sprintf("%s:%d", shortFile(pp.Filename), pp.Line)
	}
	t.retPos = append(t.retPos, rp)
}

// frameCheck: every heap changed since entry differs only at declared locations
// (for objects that existed at entry).
func (t *fnTrans) frameCheck(x *ssa.Return, env *specEnv) {
	if t.ct.Flags["noframe"] != "" {
		return
	}
	var locs []location
	for _, loc := range t.ct.Modifies {
		if l, ok := t.resolveLoc(loc, env, t.entry); ok {
			locs = append(locs, l)
		}
	}
	// what other goroutines may change (rely) is not this function's modification
	for _, loc := range t.ct.RelyMod {
		if l, ok := t.resolveLoc(loc, env, t.entry); ok {
			locs = append(locs, l)
		}
	}
	top0 := t.top(t.entry)
	var names []string
	for hn := range t.st.heaps {
		names = append(names, hn)
	}
	sortStrings(names)
	for _, hn := range names {
		cur := t.st.heaps[hn]
		if hn == "$top" || hn == "$held" || strings.HasPrefix(hn, "CL.") || strings.HasPrefix(hn, "G.") || strings.HasPrefix(hn, "$iter.") {
			continue // $iter.*: the visited-key sets of the function's own map iterations (not caller-visible)
		}
		hs := t.eng.heapSort[hn]
		ent := t.heapGet(t.entry, hn, hs)
		if cur == ent {
			continue
		}
		r := t.freshConst("fr", "Int")
		var excl []string
		whole := false
		isElem := strings.HasPrefix(hn, "E.") || strings.HasPrefix(hn, "M.")
		idx := ""
		if isElem {
			idx = t.freshConst("fi", "Int")
		}
		for _, l := range locs {
			for _, lh := range l.heaps {
				if lh != hn {
					continue
				}
				switch l.kind {
				case locAllField, locAllElems, locHeap:
					whole = true
				case locFresh:
					// declares nothing about objects that existed at entry (which is what the frame check is about)
				case locField, locCell, locMap:
					excl = append(excl, eq(r, l.ref))
				case locElems:
					excl = append(excl, and(eq(r, l.ref), le(l.lo, idx), lt(idx, l.hi)))
				}
			}
		}
		if whole {
			continue
		}
		var same string
		if isElem {
			same = eq(sel(sel(cur, r), idx), sel(sel(ent, r), idx))
		} else {
			same = eq(sel(cur, r), sel(ent, r))
		}
		f := imp(and(le("1", r), le(r, top0), not(or(excl...))), same)
		if strings.HasPrefix(hn, "C.") || strings.HasPrefix(hn, "F.") || strings.HasPrefix(hn, "B.") || strings.HasPrefix(hn, "GF.") {
			// pre-existing: allocated objects, globals (small negative refs), and sub-objects of pre-existing objects
			isOld := isOldRef(r, top0)
			f = imp(and(isOld, not(or(excl...))), same)
		}
		if inc := t.incomingEdges(x.Block()); len(inc) > 1 {
			for _, e := range inc {
				t.obligG("frame", x, fmt.Sprintf("%s@b%d", hn, e.pred), e.edge, f, "only declared locations of "+hn+" are modified")
			}
		} else {
			t.oblig("frame", x, hn, f, "only declared locations of "+hn+" are modified")
		}
	}
}

// isOldRef: r denotes an object that existed when the allocation mark was top0: an allocated object, a global
// (small negative refs), or a sub-object of one of those.
func isOldRef(r, top0 string) string {
	base := "(subobj_base " + r + ")"
	return or(and(le("1", r), le(r, top0)),
		and(lt(r, "0"), lt("(- 1000000)", r)),
		and(le(r, "(- 1000000)"), eq(r, "(subobj "+base+" (subobj_idx "+r+"))"), or(and(le("1", base), le(base, top0)), lt(base, "0"))))
}

// splitConj splits  A ==> (B && C)  into  A ==> B,  A ==> C  (and top-level conjunctions likewise).
// splitMacros lets splitConj look through //@ define macros (set by the engine).
var splitMacros func(name string) (params []string, body ast.Expr)

// substIdents returns a copy of x with identifiers replaced.
func substIdents(x ast.Expr, m map[string]ast.Expr) ast.Expr {
	switch n := x.(type) {
	case *ast.Ident:
		if r, ok := m[n.Name]; ok {
			return r
		}
		return n
	case *ast.ParenExpr:
		return &ast.ParenExpr{X: substIdents(n.X, m)}
	case *ast.SelectorExpr:
		return &ast.SelectorExpr{X: substIdents(n.X, m), Sel: n.Sel}
	case *ast.IndexExpr:
		return &ast.IndexExpr{X: substIdents(n.X, m), Index: substIdents(n.Index, m)}
	case *ast.SliceExpr:
		r := &ast.SliceExpr{X: substIdents(n.X, m)}
		if n.Low != nil {
			r.Low = substIdents(n.Low, m)
		}
		if n.High != nil {
			r.High = substIdents(n.High, m)
		}
		return r
	case *ast.StarExpr:
		return &ast.StarExpr{X: substIdents(n.X, m)}
	case *ast.UnaryExpr:
		return &ast.UnaryExpr{Op: n.Op, X: substIdents(n.X, m)}
	case *ast.BinaryExpr:
		return &ast.BinaryExpr{X: substIdents(n.X, m), Op: n.Op, Y: substIdents(n.Y, m)}
	case *ast.CallExpr:
		r := &ast.CallExpr{Fun: substIdents(n.Fun, m)}
		for _, a := range n.Args {
			r.Args = append(r.Args, substIdents(a, m))
		}
		return r
	case *ast.FuncLit:
		// bound variable shadows
		m2 := map[string]ast.Expr{}
		for k, v := range m {
			m2[k] = v
		}
		for _, f := range n.Type.Params.List {
			for _, nm := range f.Names {
				delete(m2, nm.Name)
			}
		}
		var stmts []ast.Stmt
		for _, st := range n.Body.List {
			if rs, ok := st.(*ast.ReturnStmt); ok {
				var res []ast.Expr
				for _, e := range rs.Results {
					res = append(res, substIdents(e, m2))
				}
				stmts = append(stmts, &ast.ReturnStmt{Results: res})
			} else {
				stmts = append(stmts, st)
			}
		}
		return &ast.FuncLit{Type: n.Type, Body: &ast.BlockStmt{List: stmts}}
	}
	return x
}

func splitConj(x ast.Expr) []ast.Expr {
	if ce, ok := x.(*ast.CallExpr); ok && splitMacros != nil {
		if id, ok := ce.Fun.(*ast.Ident); ok {
			if params, body := splitMacros(id.Name); body != nil && len(params) == len(ce.Args) {
				m := map[string]ast.Expr{}
				for i, p := range params {
					m[p] = ce.Args[i]
				}
				return splitConj(substIdents(body, m))
			}
		}
	}
	switch n := x.(type) {
	case *ast.ParenExpr:
		return splitConj(n.X)
	case *ast.BinaryExpr:
		if n.Op.String() == "&&" {
			return append(splitConj(n.X), splitConj(n.Y)...)
		}
	case *ast.CallExpr:
		if id, ok := n.Fun.(*ast.Ident); ok && id.Name == "implies" && len(n.Args) == 2 {
			var out []ast.Expr
			for _, c := range splitConj(n.Args[1]) {
				out = append(out, &ast.CallExpr{Fun: id, Args: []ast.Expr{n.Args[0], c}})
			}
			return out
		}
		// forall(lo, hi, func(j int) bool { return A && B }) -> forall(.. A), forall(.. B)
		if id, ok := n.Fun.(*ast.Ident); ok && id.Name == "forall" && len(n.Args) == 3 {
			if fl, ok := n.Args[2].(*ast.FuncLit); ok && len(fl.Body.List) == 1 {
				if rs, ok := fl.Body.List[0].(*ast.ReturnStmt); ok && len(rs.Results) == 1 {
					parts := splitConj(rs.Results[0])
					if len(parts) > 1 {
						var out []ast.Expr
						for _, c := range parts {
							nf := &ast.FuncLit{Type: fl.Type, Body: &ast.BlockStmt{List: []ast.Stmt{&ast.ReturnStmt{Results: []ast.Expr{c}}}}}
							args := append([]ast.Expr{n.Args[0], n.Args[1], nf}, n.Args[3:]...)
							out = append(out, &ast.CallExpr{Fun: id, Args: args})
						}
						return out
					}
				}
			}
		}
	}
	return []ast.Expr{x}
}

type incEdge struct {
	edge string
	pred int
}

// incomingEdges lists the (translated, non-back) edges into block b.
func (t *fnTrans) incomingEdges(b *ssa.BasicBlock) []incEdge {
	var out []incEdge
	for _, p := range b.Preds {
		if t.isBackEdge(p, b) {
			continue
		}
		for k, s := range p.Succs {
			if s == b {
				if e, ok := t.edges[[2]int{p.Index*4 + k, b.Index}]; ok {
					out = append(out, incEdge{e, p.Index})
				}
			}
		}
	}
	return out
}

func sortStrings(s []string) {
	for i := 1; i < len(s); i++ {
		for j := i; j > 0 && s[j] < s[j-1]; j-- {
			s[j], s[j-1] = s[j-1], s[j]
		}
	}
}
