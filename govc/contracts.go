package main

// Contract blocks: runs of `//@` lines in the verif-tagged files of /repo.
// See design/ENCODING.md A.1.

import (
	"fmt"
	"go/ast"
	"go/parser"
	"go/token"
	"os"
	"path/filepath"
	"regexp"
	"sort"
	"strconv"
	"strings"
)

type Clause struct {
	Kind  string   // requires ensures invariant decreases
	Tags  []string // property ids
	Label string
	Known string // known finding id ("KF-n") or ""
	Site  string // atcall clauses: "inloop" / "outloop" / "" (all call sites)
	Text  string
	Expr  ast.Expr
	Loop  int
	Pos   string // file:line
}

// GhostStmt: gh_x[Idx] = Val, executed at position At ("entry", "loop k entry", "loop k latch").
type GhostStmt struct {
	Name string
	Idx  ast.Expr
	Val  ast.Expr
	At   string
	Loop int
	Text string
}

type Contract struct {
	Kind        string // func closure iface extern typeinv lemma
	Target      string // canonical name
	Pkg         string // package path where it was declared
	Results     []string
	Requires    []*Clause
	Ensures     []*Clause
	Modifies    []string // raw location expressions
	HasModifies bool
	LoopInv     map[int][]*Clause
	LoopDec     map[int]*Clause
	LoopMod     map[int][]string
	LoopStep    map[int][]*Clause // two-state assertions per iteration
	Trusted     bool
	Strict      bool
	Pure        bool
	NoOverflow  bool // do not generate overflow obligations
	MayPanic    bool
	Props       []string // properties this function serves (closure roots)
	Flags       map[string]string
	Pos         string
	GhostOut    []string
	Ghosts      []*GhostStmt
	AtCall      map[string][]*Clause // extra preconditions this function imposes on its calls to a given callee
	AtCallAssume map[string][]*Clause // facts this function assumes after its calls to a given callee (old() = state before the call); trusted
	RelyMod     []string  // rely modifies: what other goroutines may change at yield points
	RelyEns     []*Clause // rely ensures: two-state facts about such a change (old = before, current = after)
	DefParams   []string // define: parameter names
	DefExpr     ast.Expr // define: body
}

var clauseKW = map[string]bool{"func": true, "closure": true, "iface": true, "extern": true, "typeinv": true, "lemma": true,
	"results": true, "requires": true, "ensures": true, "modifies": true, "loop": true, "ghost": true, "trusted": true,
	"strictslice": true, "pure": true, "maypanic": true, "flag": true, "props": true, "nooverflow": true, "property": true, "ghostout": true, "define": true, "is": true, "axiom": true, "rely": true, "atcall": true, "fieldrange": true, "modset": true}

var headRe = regexp.MustCompile(`^(requires|ensures|invariant|decreases)(\[[^\]]*\])?\s*(.*)$`)

type PropertyDecl struct {
	ID    string
	Roots []string
	// Callers: every function (of the loaded packages) that statically calls one of these is a root as well;
	// one without a contract is a binding failure (e.g. a new producer-side use of the out ring).
	Callers []string
	// Stops: the closure of this property does not descend into these functions (their contracts are still what
	// callers are checked against; their bodies are verified by the properties that list them as roots)
	Stops []string
	Pkg   string
}

type ContractSet struct {
	ModSets map[string][]string
	FieldRange map[string][2]string // heap name -> assumed [lo, hi] of every value stored in that field
	ByTarget map[string]*Contract
	Order    []string
	Props    map[string]*PropertyDecl
	Files    []string
}

func parseTagLabel(s string) (tags []string, label, known string) {
	s = strings.Trim(s, "[]")
	if s == "" {
		return
	}
	parts := strings.SplitN(s, ":", 2)
	tagstr := parts[0]
	if len(parts) == 2 {
		label = parts[1]
	}
	for _, t := range strings.Split(tagstr, ",") {
		t = strings.TrimSpace(t)
		if t == "" {
			continue
		}
		if strings.HasPrefix(t, "known=") {
			known = strings.TrimPrefix(t, "known=")
			continue
		}
		if regexp.MustCompile(`^C[0-9]+$`).MatchString(t) {
			tags = append(tags, t)
		} else if label == "" {
			label = t
		} else {
			label = t + "-" + label
		}
	}
	return
}

// loadContracts scans every *.go file of the given directories that carries
// the verif build tag for //@ blocks.
func loadContracts(dirs map[string]string) (*ContractSet, error) {
	cs := &ContractSet{ByTarget: map[string]*Contract{}, Props: map[string]*PropertyDecl{}, FieldRange: map[string][2]string{}}
	var pkgs []string
	for p := range dirs {
		pkgs = append(pkgs, p)
	}
	sort.Strings(pkgs)
	for _, pkgPath := range pkgs {
		files, _ := filepath.Glob(filepath.Join(dirs[pkgPath], "verif_*.go"))
		sort.Strings(files)
		for _, f := range files {
			if strings.HasSuffix(f, "_test.go") {
				continue
			}
			data, err := os.ReadFile(f)
			if err != nil {
				return nil, err
			}
			if !strings.Contains(string(data), "go:build verif") {
				continue
			}
			cs.Files = append(cs.Files, f)
			if err := cs.parseFile(pkgPath, f, string(data)); err != nil {
				return nil, err
			}
		}
	}
	// flag like <target>: the contract starts with every requires / ensures / modifies / results clause of <target>
	// (an interface-method contract). Used by refinement wrappers: a function of the verification build that calls one
	// implementation statically is verified against the interface contract, which proves that the implementation's own
	// contract implies the interface's (behavioural subtyping) - ghostdef clauses excepted, they define ghost state.
	for _, n := range cs.Order {
		c := cs.ByTarget[n]
		lk := c.Flags["like"]
		if lk == "" {
			continue
		}
		tgt := strings.ReplaceAll(lk, " ", "")
		src := cs.ByTarget[tgt]
		if src == nil {
			src = cs.ByTarget[qualify(c.Pkg, tgt)]
		}
		if src == nil {
			return nil, fmt.Errorf("%s: flag like %s: no such contract", c.Pos, lk)
		}
		if src.Pkg != c.Pkg {
			return nil, fmt.Errorf("%s: flag like %s: must be declared in the package of the interface contract", c.Pos, lk)
		}
		var own []string
		for _, cl := range c.Requires {
			own = append(own, cl.Text)
		}
		c.Flags["ownrequires"] = strings.Join(own, " && ")
		c.Requires = append(append([]*Clause{}, src.Requires...), c.Requires...)
		var ens []*Clause
		for _, cl := range src.Ensures {
			if strings.HasPrefix(cl.Label, "assumed-") {
				// stays an assumption of the interface contract (reported in the trusted base), not proved per implementation
				continue
			}
			ens = append(ens, cl)
		}
		c.Ensures = append(ens, c.Ensures...)
		c.Modifies = append(append([]string{}, src.Modifies...), c.Modifies...)
		c.HasModifies = c.HasModifies || src.HasModifies
		if len(c.Results) == 0 {
			c.Results = src.Results
		}
		src.Flags["refined"] = strings.TrimSpace(src.Flags["refined"] + " " + n)
	}
	// expand modset(NAME) in every location list
	var expand func(in []string, depth int) ([]string, error)
	expand = func(in []string, depth int) ([]string, error) {
		var out []string
		for _, l := range in {
			t := strings.TrimSpace(l)
			if strings.HasPrefix(t, "modset(") && strings.HasSuffix(t, ")") {
				name := strings.TrimSpace(t[7 : len(t)-1])
				ms, ok := cs.ModSets[name]
				if !ok || depth > 5 {
					return nil, fmt.Errorf("unknown modset %q", name)
				}
				sub, err := expand(ms, depth+1)
				if err != nil {
					return nil, err
				}
				out = append(out, sub...)
				continue
			}
			out = append(out, l)
		}
		return out, nil
	}
	for _, c := range cs.ByTarget {
		var err error
		if c.Modifies, err = expand(c.Modifies, 0); err != nil {
			return nil, fmt.Errorf("%s: %v", c.Pos, err)
		}
		if c.RelyMod, err = expand(c.RelyMod, 0); err != nil {
			return nil, fmt.Errorf("%s: %v", c.Pos, err)
		}
		for k, v := range c.LoopMod {
			if c.LoopMod[k], err = expand(v, 0); err != nil {
				return nil, fmt.Errorf("%s: %v", c.Pos, err)
			}
		}
	}
	return cs, nil
}

func (cs *ContractSet) parseFile(pkgPath, file, data string) error {
	lines := strings.Split(data, "\n")
	var cur *Contract
	var pending []string // clause lines being accumulated
	var pendingLine int
	flush := func() error {
		if len(pending) == 0 {
			return nil
		}
		text := strings.Join(pending, " ")
		pending = nil
		return cs.addClause(&cur, pkgPath, fmt.Sprintf("%s:%d", filepath.Base(file), pendingLine), text)
	}
	for i, ln := range lines {
		t := strings.TrimSpace(ln)
		if !strings.HasPrefix(t, "//@") {
			if err := flush(); err != nil {
				return err
			}
			cur = nil
			continue
		}
		body := strings.TrimSpace(strings.TrimPrefix(t, "//@"))
		if body == "" {
			continue
		}
		if strings.HasPrefix(body, "//") { // comment inside block
			continue
		}
		first := body
		if j := strings.IndexAny(body, " \t["); j >= 0 {
			first = body[:j]
		}
		if clauseKW[first] {
			if err := flush(); err != nil {
				return err
			}
			pendingLine = i + 1
		}
		pending = append(pending, body)
	}
	return flush()
}

func (cs *ContractSet) addClause(cur **Contract, pkgPath, pos, text string) error {
	fields := strings.Fields(text)
	kw := fields[0]
	if j := strings.Index(kw, "["); j >= 0 {
		kw = kw[:j]
	}
	rest := strings.TrimSpace(strings.TrimPrefix(text, kw))
	switch kw {
	case "modset":
		// modset NAME loc, loc, ...   (a named list of variable-free locations; used as modset(NAME) in modifies clauses)
		if len(fields) < 3 {
			return fmt.Errorf("%s: modset NAME loc, ...", pos)
		}
		r := strings.TrimSpace(strings.TrimPrefix(rest, fields[1]))
		if cs.ModSets == nil {
			cs.ModSets = map[string][]string{}
		}
		for _, x := range splitTop(r, ',') {
			if x = strings.TrimSpace(x); x != "" {
				cs.ModSets[fields[1]] = append(cs.ModSets[fields[1]], x)
			}
		}
		return nil
	case "fieldrange":
		// fieldrange pkg.Struct.field lo hi   (an assumption, listed in the trusted base)
		if len(fields) != 4 {
			return fmt.Errorf("%s: fieldrange pkg.Struct.field lo hi", pos)
		}
		cs.FieldRange["F."+fields[1]] = [2]string{fields[2], fields[3]}
		return nil
	case "property":
		// property C03 roots a, b, c
		if len(fields) < 3 {
			return fmt.Errorf("%s: bad property clause", pos)
		}
		id := fields[1]
		r0 := strings.TrimSpace(strings.TrimPrefix(rest, id))
		isCallers := strings.HasPrefix(r0, "callers")
		isStops := strings.HasPrefix(r0, "stops")
		r := strings.TrimSpace(strings.TrimPrefix(strings.TrimPrefix(strings.TrimPrefix(r0, "roots"), "callers"), "stops"))
		pd := cs.Props[id]
		if pd == nil {
			pd = &PropertyDecl{ID: id}
			cs.Props[id] = pd
		}
		for _, x := range strings.Split(r, ",") {
			x = strings.TrimSpace(x)
			if x != "" {
				if isStops {
					pd.Stops = append(pd.Stops, qualify(pkgPath, x))
					continue
				}
				if isCallers {
					if strings.HasPrefix(x, "net.") || strings.HasPrefix(x, "io.") {
						// a method of a standard-library interface: the key is the plain name (net.Conn.SetReadDeadline)
						pd.Callers = append(pd.Callers, x)
						continue
					}
					pd.Callers = append(pd.Callers, qualify(pkgPath, x))
				} else {
					pd.Roots = append(pd.Roots, qualify(pkgPath, x))
				}
			}
		}
		return nil
	case "define":
		// define name(p1, p2)  followed by  is EXPR
		name := strings.TrimSpace(rest)
		lp := strings.Index(name, "(")
		if lp < 0 || !strings.HasSuffix(name, ")") {
			return fmt.Errorf("%s: define needs name(params)", pos)
		}
		if _, dup := cs.ByTarget["define "+pkgPath+"."+strings.TrimSpace(name[:lp])]; dup {
			return fmt.Errorf("%s: duplicate define %s", pos, name[:lp])
		}
		c := &Contract{Kind: "define", Pkg: pkgPath, LoopInv: map[int][]*Clause{}, LoopDec: map[int]*Clause{}, LoopMod: map[int][]string{}, Flags: map[string]string{}, Pos: pos}
		for _, pn := range strings.Split(name[lp+1:len(name)-1], ",") {
			if pn = strings.TrimSpace(pn); pn != "" {
				c.DefParams = append(c.DefParams, pn)
			}
		}
		c.Target = "define " + pkgPath + "." + strings.TrimSpace(name[:lp])
		cs.ByTarget[c.Target] = c
		*cur = c
		return nil
	case "axiom":
		// axiom name  followed by  is EXPR : assumed at the entry of every function of the package
		c := &Contract{Kind: "axiom", Pkg: pkgPath, LoopInv: map[int][]*Clause{}, LoopDec: map[int]*Clause{}, LoopMod: map[int][]string{}, Flags: map[string]string{}, Pos: pos, Trusted: true}
		c.Target = "axiom " + pkgPath + "." + strings.TrimSpace(rest)
		if _, dup := cs.ByTarget[c.Target]; dup {
			return fmt.Errorf("%s: duplicate axiom %s", pos, c.Target)
		}
		cs.ByTarget[c.Target] = c
		cs.Order = append(cs.Order, c.Target)
		*cur = c
		return nil
	case "func", "closure", "iface", "extern", "typeinv", "lemma":
		c := &Contract{Kind: kw, Pkg: pkgPath, LoopInv: map[int][]*Clause{}, LoopDec: map[int]*Clause{}, LoopMod: map[int][]string{}, Flags: map[string]string{}, Pos: pos}
		name := strings.TrimSpace(rest)
		if kw == "extern" {
			c.Target = name
			c.Trusted = true
		} else if kw == "iface" && strings.Count(name, ".") >= 2 {
			c.Target = strings.ReplaceAll(name, " ", "") // already package-qualified: pkg.Type.Method
		} else {
			c.Target = qualify(pkgPath, name)
		}
		if _, dup := cs.ByTarget[c.Target]; dup {
			return fmt.Errorf("%s: duplicate contract for %s", pos, c.Target)
		}
		cs.ByTarget[c.Target] = c
		cs.Order = append(cs.Order, c.Target)
		*cur = c
		return nil
	}
	c := *cur
	if c == nil {
		return fmt.Errorf("%s: clause %q outside a contract block", pos, kw)
	}
	mk := func(kind, s string, loop int) (*Clause, error) {
		m := headRe.FindStringSubmatch(kind + s)
		_ = m
		cl := &Clause{Kind: kind, Loop: loop, Pos: pos}
		s = strings.TrimSpace(s)
		if strings.HasPrefix(s, "[") {
			j := strings.Index(s, "]")
			cl.Tags, cl.Label, cl.Known = parseTagLabel(s[:j+1])
			s = strings.TrimSpace(s[j+1:])
		}
		cl.Text = s
		e, err := parseSpecExpr(s)
		if err != nil {
			return nil, fmt.Errorf("%s: %v in %q", pos, err, s)
		}
		cl.Expr = e
		return cl, nil
	}
	switch kw {
	case "results":
		for _, x := range strings.Split(rest, ",") {
			c.Results = append(c.Results, strings.TrimSpace(x))
		}
	case "is":
		e, err := parseSpecExpr(rest)
		if err != nil {
			return fmt.Errorf("%s: %v", pos, err)
		}
		c.DefExpr = e
	case "atcall":
		// atcall <callee> requires[label] E
		i := strings.Index(rest, " requires")
		kwd := " requires"
		if i < 0 {
			i = strings.Index(rest, " assumes")
			kwd = " assumes"
		}
		if i < 0 {
			return fmt.Errorf("%s: atcall <callee> requires|assumes E", pos)
		}
		callee := strings.TrimSpace(rest[:i])
		site := ""
		for _, sp := range []string{"inloop ", "outloop "} {
			// atcall inloop|outloop <callee> ...: the clause applies only to call sites inside / outside loops
			if strings.HasPrefix(callee, sp) {
				site = strings.TrimSpace(sp)
				callee = strings.TrimSpace(strings.TrimPrefix(callee, sp))
			}
		}
		cl, err := mk("requires", strings.TrimSpace(rest[i+len(kwd):]), 0)
		if err != nil {
			return err
		}
		cl.Site = site
		if c.AtCall == nil {
			c.AtCall = map[string][]*Clause{}
			c.AtCallAssume = map[string][]*Clause{}
		}
		stdlib := false
		for _, sp := range []string{"fmt.", "io.", "time.", "bytes.", "errors.", "sort.", "strings."} {
			if strings.HasPrefix(callee, sp) {
				stdlib = true // a standard-library function: its contract key is the plain name
			}
		}
		if !stdlib && !(strings.Count(callee, ".") >= 2 && !strings.HasPrefix(callee, "(")) {
			callee = qualify(pkgPath, callee)
		}
		if kwd == " assumes" {
			c.AtCallAssume[callee] = append(c.AtCallAssume[callee], cl)
		} else {
			c.AtCall[callee] = append(c.AtCall[callee], cl)
		}
	case "rely":
		switch {
		case strings.HasPrefix(rest, "modifies"):
			c.RelyMod = append(c.RelyMod, splitTop(strings.TrimSpace(strings.TrimPrefix(rest, "modifies")), ',')...)
		case strings.HasPrefix(rest, "ensures"):
			cl, err := mk("ensures", strings.TrimPrefix(rest, "ensures"), 0)
			if err != nil {
				return err
			}
			c.RelyEns = append(c.RelyEns, cl)
		default:
			return fmt.Errorf("%s: rely must be followed by modifies or ensures", pos)
		}
	case "ghostout":
		for _, x := range strings.Split(rest, ",") {
			c.GhostOut = append(c.GhostOut, strings.TrimSpace(x))
		}
	case "ghost":
		// ghost gh_x[E1] = E2 at entry | at loop k entry | at loop k latch
		at := strings.LastIndex(rest, " at ")
		if at < 0 {
			return fmt.Errorf("%s: ghost statement needs 'at <position>'", pos)
		}
		stmt, where := strings.TrimSpace(rest[:at]), strings.TrimSpace(rest[at+4:])
		eqi := findTop(stmt, "=")
		if eqi < 0 {
			return fmt.Errorf("%s: ghost statement needs '='", pos)
		}
		lhs, rhs := strings.TrimSpace(stmt[:eqi]), strings.TrimSpace(stmt[eqi+1:])
		lb := strings.Index(lhs, "[")
		if lb < 0 || !strings.HasSuffix(lhs, "]") {
			return fmt.Errorf("%s: ghost lhs must be gh_x[index]", pos)
		}
		g := &GhostStmt{Name: strings.TrimSpace(lhs[:lb]), Text: rest}
		var err error
		if g.Idx, err = parseSpecExpr(lhs[lb+1 : len(lhs)-1]); err != nil {
			return fmt.Errorf("%s: %v", pos, err)
		}
		if g.Val, err = parseSpecExpr(rhs); err != nil {
			return fmt.Errorf("%s: %v", pos, err)
		}
		wf := strings.Fields(where)
		switch {
		case len(wf) == 1 && wf[0] == "entry":
			g.At = "entry"
		case len(wf) == 3 && wf[0] == "loop":
			k, err := strconv.Atoi(wf[1])
			if err != nil {
				return fmt.Errorf("%s: bad loop ordinal in ghost position", pos)
			}
			g.Loop = k
			g.At = wf[2]
		default:
			return fmt.Errorf("%s: bad ghost position %q", pos, where)
		}
		c.Ghosts = append(c.Ghosts, g)
	case "trusted":
		c.Trusted = true
	case "strictslice":
		c.Strict = true
	case "pure":
		c.Pure = true
	case "nooverflow":
		c.NoOverflow = true
	case "maypanic":
		c.MayPanic = true
	case "props":
		for _, x := range strings.Split(rest, ",") {
			c.Props = append(c.Props, strings.TrimSpace(x))
		}
	case "flag":
		kv := strings.SplitN(rest, " ", 2)
		if len(kv) == 2 {
			c.Flags[kv[0]] = strings.TrimSpace(kv[1])
		} else {
			c.Flags[kv[0]] = "1"
		}
	case "requires":
		cl, err := mk("requires", rest, 0)
		if err != nil {
			return err
		}
		c.Requires = append(c.Requires, cl)
	case "ensures":
		cl, err := mk("ensures", rest, 0)
		if err != nil {
			return err
		}
		c.Ensures = append(c.Ensures, cl)
	case "modifies":
		c.HasModifies = true
		if strings.TrimSpace(rest) != "nothing" {
			c.Modifies = append(c.Modifies, splitTop(rest, ',')...)
		}
	case "loop":
		// loop k invariant[..] E | loop k decreases E | loop k modifies L
		f2 := strings.Fields(rest)
		if len(f2) < 2 {
			return fmt.Errorf("%s: bad loop clause", pos)
		}
		k, err := strconv.Atoi(f2[0])
		if err != nil {
			return fmt.Errorf("%s: bad loop ordinal", pos)
		}
		r := strings.TrimSpace(strings.TrimPrefix(rest, f2[0]))
		switch {
		case strings.HasPrefix(r, "invariant"):
			cl, err := mk("invariant", strings.TrimPrefix(r, "invariant"), k)
			if err != nil {
				return err
			}
			c.LoopInv[k] = append(c.LoopInv[k], cl)
		case strings.HasPrefix(r, "step"):
			// loop k step[..] E: holds at the end of every iteration; old() = the state at the start of that iteration
			cl, err := mk("step", strings.TrimPrefix(r, "step"), k)
			if err != nil {
				return err
			}
			if c.LoopStep == nil {
				c.LoopStep = map[int][]*Clause{}
			}
			c.LoopStep[k] = append(c.LoopStep[k], cl)
		case strings.HasPrefix(r, "decreases"):
			cl, err := mk("decreases", strings.TrimPrefix(r, "decreases"), k)
			if err != nil {
				return err
			}
			c.LoopDec[k] = cl
		default:
			return fmt.Errorf("%s: bad loop clause %q", pos, r)
		}
	default:
		return fmt.Errorf("%s: unknown clause %q", pos, kw)
	}
	return nil
}

func qualify(pkgPath, name string) string {
	name = strings.TrimSpace(name)
	name = strings.ReplaceAll(name, " ", "")
	if strings.Contains(name, "/") && !strings.HasPrefix(name, "(") {
		return name // already qualified
	}
	if strings.HasPrefix(name, "(") {
		// (*T).m  ->  (*pkg.T).m
		j := strings.Index(name, ")")
		recv := name[1:j]
		star := ""
		if strings.HasPrefix(recv, "*") {
			star = "*"
			recv = recv[1:]
		}
		if strings.Contains(recv, "/") || strings.Contains(recv, ".") {
			return "(" + star + recv + ")" + name[j+1:]
		}
		return "(" + star + pkgPath + "." + recv + ")" + name[j+1:]
	}
	return pkgPath + "." + name
}

// splitTop splits s at sep occurring at bracket depth 0.
func splitTop(s string, sep byte) []string {
	var out []string
	depth := 0
	start := 0
	inStr := byte(0)
	for i := 0; i < len(s); i++ {
		ch := s[i]
		if inStr != 0 {
			if ch == '\\' {
				i++
			} else if ch == inStr {
				inStr = 0
			}
			continue
		}
		switch ch {
		case '"', '\'', '`':
			inStr = ch
		case '(', '[', '{':
			depth++
		case ')', ']', '}':
			depth--
		default:
			if ch == sep && depth == 0 {
				out = append(out, strings.TrimSpace(s[start:i]))
				start = i + 1
			}
		}
	}
	if t := strings.TrimSpace(s[start:]); t != "" {
		out = append(out, t)
	}
	return out
}

// rewriteImplies turns `A ==> B` and `A <==> B` into implies(A,B) / iff(A,B)
// so that go/parser can read the expression.
func rewriteImplies(s string) string {
	// split at top-level ',' or ';' and treat each piece
	pieces := splitKeep(s)
	var sb strings.Builder
	for _, p := range pieces {
		if p.sep {
			sb.WriteString(p.s)
			continue
		}
		sb.WriteString(rwPiece(p.s))
	}
	return sb.String()
}

type piece struct {
	s   string
	sep bool
}

func splitKeep(s string) []piece {
	var out []piece
	depth := 0
	start := 0
	inStr := byte(0)
	for i := 0; i < len(s); i++ {
		ch := s[i]
		if inStr != 0 {
			if ch == '\\' {
				i++
			} else if ch == inStr {
				inStr = 0
			}
			continue
		}
		switch ch {
		case '"', '\'', '`':
			inStr = ch
		case '(', '[', '{':
			depth++
		case ')', ']', '}':
			depth--
		case ',', ';':
			if depth == 0 {
				out = append(out, piece{s[start:i], false}, piece{string(ch), true})
				start = i + 1
			}
		}
	}
	out = append(out, piece{s[start:], false})
	return out
}

func findTop(s, op string) int {
	depth := 0
	inStr := byte(0)
	for i := 0; i+len(op) <= len(s); i++ {
		ch := s[i]
		if inStr != 0 {
			if ch == '\\' {
				i++
			} else if ch == inStr {
				inStr = 0
			}
			continue
		}
		switch ch {
		case '"', '\'', '`':
			inStr = ch
			continue
		case '(', '[', '{':
			depth++
			continue
		case ')', ']', '}':
			depth--
			continue
		}
		if depth == 0 && strings.HasPrefix(s[i:], op) {
			if op == "==>" && i > 0 && s[i-1] == '<' {
				continue
			}
			return i
		}
	}
	return -1
}

func rwPiece(s string) string {
	trim := strings.TrimLeft(s, " \t")
	lead := s[:len(s)-len(trim)]
	if strings.HasPrefix(trim, "return ") {
		return lead + "return " + rwPiece(strings.TrimPrefix(trim, "return "))
	}
	if i := findTop(s, "<==>"); i >= 0 {
		return "iff(" + rwPiece(s[:i]) + ", " + rwPiece(s[i+4:]) + ")"
	}
	if i := findTop(s, "==>"); i >= 0 {
		return "implies(" + rwPiece(s[:i]) + ", " + rwPiece(s[i+3:]) + ")"
	}
	// recurse into bracket groups
	var sb strings.Builder
	depth := 0
	start := -1
	inStr := byte(0)
	for i := 0; i < len(s); i++ {
		ch := s[i]
		if inStr != 0 {
			if depth == 0 {
				sb.WriteByte(ch)
			}
			if ch == '\\' {
				i++
				if depth == 0 && i < len(s) {
					sb.WriteByte(s[i])
				}
			} else if ch == inStr {
				inStr = 0
			}
			continue
		}
		switch ch {
		case '"', '\'', '`':
			inStr = ch
			if depth == 0 {
				sb.WriteByte(ch)
			}
		case '(', '[', '{':
			if depth == 0 {
				sb.WriteByte(ch)
				start = i + 1
			}
			depth++
		case ')', ']', '}':
			depth--
			if depth == 0 {
				sb.WriteString(rewriteImplies(s[start:i]))
				sb.WriteByte(ch)
			}
		default:
			if depth == 0 {
				sb.WriteByte(ch)
			}
		}
	}
	return sb.String()
}

func parseSpecExpr(s string) (ast.Expr, error) {
	r := rewriteImplies(s)
	e, err := parser.ParseExprFrom(token.NewFileSet(), "", r, 0)
	if err != nil {
		return nil, fmt.Errorf("spec parse: %v (after rewrite: %s)", err, r)
	}
	return e, nil
}
