package main

import (
	"fmt"
	"go/ast"
	"go/token"
	"go/types"
	"os"
	"sort"
	"strings"

	"golang.org/x/tools/go/packages"
	"golang.org/x/tools/go/ssa"
	"golang.org/x/tools/go/ssa/ssautil"
)

const repoMod = "github.com/mdzio/go-mqtt"

type Engine struct {
	fset     *token.FileSet
	pkgs     []*packages.Package
	prog     *ssa.Program
	spkgs    map[string]*ssa.Package
	typePkgs map[string]*types.Package
	ppkgs    map[string]*packages.Package
	cs       *ContractSet
	heapSort map[string]string
	typeIDs  map[string]int
	typeList []string
	funcIDs  map[string]int
	strs     map[string]int
	strList  []string
	globals  map[string]int
	fieldIDs map[string]int
	ufs      map[string]string
	boxTypes map[string]types.Type
	specFns  map[string]*ast.FuncDecl
	funcs    map[string]*ssa.Function
	debug    bool
	useStrs  bool
	repo     string
}

func newEngine(repo string, pkgPaths []string) (*Engine, error) {
	e := &Engine{heapSort: map[string]string{}, typeIDs: map[string]int{}, funcIDs: map[string]int{}, strs: map[string]int{},
		globals: map[string]int{}, fieldIDs: map[string]int{}, ufs: map[string]string{}, boxTypes: map[string]types.Type{},
		specFns: map[string]*ast.FuncDecl{}, spkgs: map[string]*ssa.Package{}, typePkgs: map[string]*types.Package{},
		ppkgs: map[string]*packages.Package{}, funcs: map[string]*ssa.Function{}, repo: repo}
	e.fset = token.NewFileSet()
	cfg := &packages.Config{Mode: packages.LoadAllSyntax, Dir: repo, BuildFlags: []string{"-tags=verif"}, Fset: e.fset,
		Env: append(os.Environ(), "GOFLAGS=-mod=mod", "GOPROXY=off", "GOSUMDB=off", "GOTOOLCHAIN=local")}
	pkgs, err := packages.Load(cfg, pkgPaths...)
	if err != nil {
		return nil, err
	}
	nerr := 0
	packages.Visit(pkgs, nil, func(p *packages.Package) {
		for _, er := range p.Errors {
			if strings.HasPrefix(p.PkgPath, repoMod) {
				fmt.Fprintf(os.Stderr, "load error: %v\n", er)
				nerr++
			}
		}
	})
	if nerr > 0 {
		return nil, fmt.Errorf("%d package load errors (the repository must compile with -tags verif)", nerr)
	}
	e.pkgs = pkgs
	prog, spkgs := ssautil.AllPackages(pkgs, ssa.GlobalDebug)
	prog.Build()
	e.prog = prog
	dirs := map[string]string{}
	for i, p := range pkgs {
		if spkgs[i] == nil {
			continue
		}
		e.spkgs[p.PkgPath] = spkgs[i]
		e.ppkgs[p.PkgPath] = p
		if len(p.GoFiles) > 0 {
			d := p.GoFiles[0]
			dirs[p.PkgPath] = d[:strings.LastIndex(d, "/")]
		}
	}
	packages.Visit(pkgs, nil, func(p *packages.Package) {
		if p.Types != nil {
			e.typePkgs[p.PkgPath] = p.Types
		}
	})
	// spec functions: FuncDecls named vspec* in verif files
	for _, p := range pkgs {
		for _, f := range p.Syntax {
			for _, d := range f.Decls {
				if fd, ok := d.(*ast.FuncDecl); ok && fd.Recv == nil && strings.HasPrefix(fd.Name.Name, "vspec") {
					e.specFns[p.PkgPath+"."+fd.Name.Name] = fd
				}
			}
		}
	}
	// all functions by name
	for fn := range ssautil.AllFunctions(prog) {
		e.funcs[fn.String()] = fn
	}
	// AllFunctions omits methods whose method sets were never needed: add every declared function and method
	var addFn func(fn *ssa.Function)
	addFn = func(fn *ssa.Function) {
		if fn == nil {
			return
		}
		if _, ok := e.funcs[fn.String()]; !ok {
			e.funcs[fn.String()] = fn
		}
		for _, a := range fn.AnonFuncs {
			addFn(a)
		}
	}
	for _, sp := range e.spkgs {
		for _, m := range sp.Members {
			switch x := m.(type) {
			case *ssa.Function:
				addFn(x)
			case *ssa.Type:
				for _, T := range []types.Type{x.Type(), types.NewPointer(x.Type())} {
					ms := prog.MethodSets.MethodSet(T)
					for i := 0; i < ms.Len(); i++ {
						addFn(prog.MethodValue(ms.At(i)))
					}
				}
			}
		}
	}
	cs, err := loadContracts(dirs)
	if err != nil {
		return nil, err
	}
	e.cs = cs
	return e, nil
}

func (e *Engine) specFunc(pkg *types.Package, name string) *ast.FuncDecl {
	return e.specFns[pkg.Path()+"."+name]
}

func (e *Engine) contractFor(name string) *Contract {
	return e.cs.ByTarget[name]
}

func (e *Engine) pkgOf(ct *Contract) *types.Package {
	if p, ok := e.typePkgs[ct.Pkg]; ok {
		return p
	}
	return nil
}

func (e *Engine) shortName(s string) string {
	s = strings.ReplaceAll(s, repoMod+"/", "")
	return s
}

func (e *Engine) typeID(T types.Type) string {
	k := types.TypeString(T, nil)
	if id, ok := e.typeIDs[k]; ok {
		return fmt.Sprint(id)
	}
	id := len(e.typeIDs) + 1
	e.typeIDs[k] = id
	e.typeList = append(e.typeList, k)
	return fmt.Sprint(id)
}

func (e *Engine) funcID(name string) string {
	if id, ok := e.funcIDs[name]; ok {
		return numi(int64(-100 - id))
	}
	id := len(e.funcIDs) + 1
	e.funcIDs[name] = id
	return numi(int64(-100 - id))
}

func (e *Engine) fieldID(S types.Type, f string) int {
	k := structKey(S) + "." + f
	if id, ok := e.fieldIDs[k]; ok {
		return id
	}
	id := len(e.fieldIDs) + 1
	e.fieldIDs[k] = id
	return id
}

func (e *Engine) globalRef(g *ssa.Global) string {
	return e.globalByName(g.Pkg.Pkg.Path() + "." + g.Name())
}
func (e *Engine) globalRefObj(o *types.Var) string {
	return e.globalByName(o.Pkg().Path() + "." + o.Name())
}
func (e *Engine) globalByName(k string) string {
	if id, ok := e.globals[k]; ok {
		return fmt.Sprintf("(- %d)", 10000+id)
	}
	id := len(e.globals) + 1
	e.globals[k] = id
	return fmt.Sprintf("(- %d)", 10000+id)
}

func (e *Engine) strConst(s string) string {
	if id, ok := e.strs[s]; ok {
		return fmt.Sprintf("|str!%d|", id)
	}
	id := len(e.strs) + 1
	e.strs[s] = id
	e.strList = append(e.strList, s)
	return fmt.Sprintf("|str!%d|", id)
}

func (e *Engine) strEq(a, b string) string {
	lit := func(x string) (string, bool) {
		if strings.HasPrefix(x, "|str!") {
			var id int
			fmt.Sscanf(x, "|str!%d|", &id)
			if id >= 1 && id <= len(e.strList) {
				return e.strList[id-1], true
			}
		}
		return "", false
	}
	if _, ok := lit(a); ok {
		a, b = b, a
	}
	if s, ok := lit(b); ok {
		if s2, ok2 := lit(a); ok2 {
			if s == s2 {
				return "true"
			}
			return "false"
		}
		if len(s) <= 16 {
			fs := []string{eq("(strlen "+a+")", fmt.Sprint(len(s)))}
			for i := 0; i < len(s); i++ {
				fs = append(fs, eq(fmt.Sprintf("(strbyte %s %d)", a, i), fmt.Sprint(s[i])))
			}
			return and(fs...)
		}
	}
	if a == b {
		return "true"
	}
	return "(streq " + a + " " + b + ")"
}

func (e *Engine) uf(name string, nargs int, res string) string {
	sig := "(" + strings.TrimSpace(strings.Repeat("Int ", nargs)) + ") " + res
	e.ufs[name] = sig
	return "(" + q(name)
}

// prelude: declarations shared by all queries of this run.
func (e *Engine) prelude(solver string) string {
	var sb strings.Builder
	switch solver {
	case "cvc5":
		sb.WriteString("(set-logic ALL)\n")
	default:
		sb.WriteString("(set-option :smt.mbqi false)\n(set-option :auto_config false)\n")
	}
	sb.WriteString("%%DECLS%%\n%%STRS%%\n")
	var ufn []string
	for k := range e.ufs {
		ufn = append(ufn, k)
	}
	sort.Strings(ufn)
	for _, k := range ufn {
		fmt.Fprintf(&sb, "(declare-fun %s %s)\n", q(k), e.ufs[k])
	}
	sb.WriteString(e.extraAxioms())
	return sb.String()
}

func (e *Engine) extraAxioms() string {
	return axiomsText
}

var axiomsText = ""

type axGroup struct {
	trigger []string
	text    string
}

// declaration/axiom groups, included only when a query mentions one of the triggers
var axGroups = []axGroup{
	{[]string{"(subobj "}, `(declare-fun subobj (Int Int) Int)
(declare-fun subobj_base (Int) Int)
(declare-fun subobj_idx (Int) Int)
(assert (forall ((r Int) (k Int)) (! (and (= (subobj_base (subobj r k)) r) (= (subobj_idx (subobj r k)) k) (< (subobj r k) (- 1000000))) :pattern ((subobj r k)))))
`},
	{[]string{"(addrof "}, `(declare-fun addrof (Int Int) Int)
(declare-fun addrof_base (Int) Int)
(declare-fun addrof_idx (Int) Int)
(assert (forall ((r Int) (k Int)) (! (and (= (addrof_base (addrof r k)) r) (= (addrof_idx (addrof r k)) k) (< (addrof r k) (- 1000000))) :pattern ((addrof r k)))))
`},
	{[]string{"(strlen ", "(strbyte ", "(strof ", "(strarr ", "(strcat ", "(strsub ", "(strofrune ", "(streq "}, `(declare-fun strlen (Int) Int)
(declare-fun strbyte (Int Int) Int)
(declare-fun strcat (Int Int) Int)
(declare-fun strsub (Int Int Int) Int)
(declare-fun strofrune (Int) Int)
(assert (forall ((s Int)) (! (>= (strlen s) 0) :pattern ((strlen s)))))
`},
	{[]string{"(streq "}, `(declare-fun streq (Int Int) Bool)
(assert (forall ((a Int) (b Int)) (! (= (streq a b) (streq b a)) :pattern ((streq a b)))))
(assert (forall ((a Int) (b Int)) (! (=> (streq a b) (= (strlen a) (strlen b))) :pattern ((streq a b)))))
(assert (forall ((a Int) (b Int)) (! (=> (= a b) (streq a b)) :pattern ((streq a b)))))
(assert (forall ((a Int) (b Int) (i Int)) (! (=> (and (streq a b) (<= 0 i) (< i (strlen a))) (= (strbyte a i) (strbyte b i))) :pattern ((streq a b) (strbyte a i)))))
`},
	{[]string{"(strof "}, `(declare-fun strof ((Array Int Int) Int Int) Int)
(assert (forall ((a (Array Int Int)) (o Int) (l Int)) (! (=> (>= l 0) (= (strlen (strof a o l)) l)) :pattern ((strof a o l)))))
(assert (forall ((a (Array Int Int)) (o Int) (l Int) (i Int)) (! (=> (and (<= 0 i) (< i l)) (= (strbyte (strof a o l) i) (select a (+ o i)))) :pattern ((strbyte (strof a o l) i)))))
`},
	{[]string{"(strarr "}, `(declare-fun strarr (Int) (Array Int Int))
(assert (forall ((s Int) (i Int)) (! (= (select (strarr s) i) (strbyte s i)) :pattern ((select (strarr s) i)))))
`},
	{[]string{"(mapcard "}, `(declare-fun mapcard ((Array Int Bool)) Int)
(assert (forall ((d (Array Int Bool))) (! (>= (mapcard d) 0) :pattern ((mapcard d)))))
(assert (= (mapcard ((as const (Array Int Bool)) false)) 0))
(assert (forall ((d (Array Int Bool)) (k Int)) (! (=> (= (mapcard d) 0) (not (select d k))) :pattern ((mapcard d) (select d k)))))
`},
	{[]string{"(shl ", "(shr "}, "(declare-fun shl (Int Int) Int)\n(declare-fun shr (Int Int) Int)\n"},
	{[]string{"(band64 ", "(bor64 ", "(bxor64 ", "(bandnot64 ", "(pow2 "}, "(declare-fun band64 (Int Int) Int)\n(declare-fun bor64 (Int Int) Int)\n(declare-fun bxor64 (Int Int) Int)\n(declare-fun bandnot64 (Int Int) Int)\n"},
	{[]string{"(band32 ", "(bor32 ", "(bxor32 ", "(bandnot32 "}, "(declare-fun band32 (Int Int) Int)\n(declare-fun bor32 (Int Int) Int)\n(declare-fun bxor32 (Int Int) Int)\n(declare-fun bandnot32 (Int Int) Int)\n"},
	// ssum(a, s, e, c) = sum over k in [s, e) of (c + max(a[k], 0)); recursive on the start index.
	// The third axiom (non-negativity) is a lemma by induction on e-s, assumed here (listed in trusted_base).
	{[]string{"(ssum "}, `(declare-fun ssum ((Array Int Int) Int Int Int) Int)
(assert (forall ((a (Array Int Int)) (s Int) (e Int) (c Int)) (! (=> (>= s e) (= (ssum a s e c) 0)) :pattern ((ssum a s e c)))))
(assert (forall ((a (Array Int Int)) (s Int) (e Int) (c Int)) (! (=> (< s e) (= (ssum a s e c) (+ c (ite (>= (select a s) 0) (select a s) 0) (ssum a (+ s 1) e c)))) :pattern ((ssum a s e c) (select a s)))))
(assert (forall ((a (Array Int Int)) (s Int) (e Int) (c Int)) (! (=> (>= c 0) (>= (ssum a s e c) 0)) :pattern ((ssum a s e c)))))
`},
	// pow2 and the 64-bit AND: lemmas proved in QF_BV (see /verif/lemmas), used as axioms over Int.
	{[]string{"(pow2 ", "(band64 "}, `(declare-fun pow2 (Int) Bool)
(assert (forall ((x Int)) (! (=> (pow2 x) (>= x 1)) :pattern ((pow2 x)))))
(assert (forall ((x Int)) (! (=> (and (pow2 x) (<= x 4611686018427387903)) (pow2 (* 2 x))) :pattern ((pow2 x)))))
(assert (pow2 1))
(assert (forall ((n Int) (m Int)) (! (=> (and (pow2 (+ m 1)) (<= 0 n) (<= n m)) (= (band64 n m) n)) :pattern ((band64 n m)))))
(assert (forall ((n Int) (m Int)) (! (=> (and (pow2 (+ m 1)) (= n (+ m 1))) (= (band64 n m) 0)) :pattern ((band64 n m)))))
(assert (forall ((n Int) (m Int)) (! (=> (and (pow2 (+ m 1)) (<= 0 n)) (and (<= 0 (band64 n m)) (<= (band64 n m) m))) :pattern ((band64 n m)))))
(assert (forall ((n Int)) (! (=> (>= n 1) (= (= (band64 n (- n 1)) 0) (pow2 n))) :pattern ((band64 n (- n 1))))))
(assert (forall ((a Int) (b Int) (m Int)) (! (=> (and (pow2 (+ m 1)) (<= 0 a) (< a b) (< b (+ a m 1)) (<= b 4611686018427387903)) (not (= (band64 a m) (band64 b m)))) :pattern ((band64 a m) (band64 b m)))))
(assert (forall ((a Int) (b Int) (m Int)) (! (=> (and (pow2 (+ m 1)) (<= 0 a) (<= a b) (<= b 4611686018427387903) (<= (+ (band64 a m) (- b a)) m)) (= (band64 b m) (+ (band64 a m) (- b a)))) :pattern ((band64 a m) (band64 b m)))))
(assert (forall ((a Int) (b Int) (m Int)) (! (=> (and (pow2 (+ m 1)) (<= 0 a) (<= a b) (<= b 4611686018427387903) (> (+ (band64 a m) (- b a)) m) (<= (- b a) m)) (= (band64 b m) (- (+ (band64 a m) (- b a)) (+ m 1)))) :pattern ((band64 a m) (band64 b m)))))
`},
}

// finishQuery resolves the %%DECLS%% placeholder against the query body.
func (e *Engine) finishQuery(qs string) string {
	var sb strings.Builder
	var strsb strings.Builder
	for i, s := range e.strList {
		nm := fmt.Sprintf("|str!%d|", i+1)
		if !strings.Contains(qs, nm) {
			continue
		}
		fmt.Fprintf(&strsb, "(declare-const %s Int)\n", nm)
		fmt.Fprintf(&strsb, "(assert (= %s (- %d)))\n", nm, 500000+i)
		fmt.Fprintf(&strsb, "(assert (= (strlen %s) %d))\n", nm, len(s))
		if len(s) <= 16 {
			for j := 0; j < len(s); j++ {
				fmt.Fprintf(&strsb, "(assert (= (strbyte %s %d) %d))\n", nm, j, s[j])
			}
		}
		if len(s) >= 1 && len(s) <= 2 {
			// strings are their contents: a string with the content of a (short) literal is that literal
			// (needed where a literal is used as a map key and compared by content elsewhere)
			cond := []string{fmt.Sprintf("(= (strlen s!c) %d)", len(s))}
			for j := 0; j < len(s); j++ {
				cond = append(cond, fmt.Sprintf("(= (strbyte s!c %d) %d)", j, s[j]))
			}
			fmt.Fprintf(&strsb, "(assert (forall ((s!c Int)) (! (=> %s (= s!c %s)) :pattern ((strlen s!c)))))\n", and(cond...), nm)
		}
	}
	qs = strings.Replace(qs, "%%STRS%%\n", strsb.String(), 1)
	for _, g := range axGroups {
		for _, tr := range g.trigger {
			if strings.Contains(qs, tr) {
				sb.WriteString(g.text)
				break
			}
		}
	}
	return strings.Replace(qs, "%%DECLS%%\n", sb.String(), 1)
}

// fieldHeapsByName resolves a raw field-heap prefix "F.<pkg>.<Struct>.<field>" to its component heaps and sorts.
func (e *Engine) fieldHeapsByName(prefix string) [][2]string {
	parts := strings.Split(prefix, ".")
	if len(parts) < 4 || parts[0] != "F" {
		return nil
	}
	for _, p := range e.typePkgs {
		if p.Name() != parts[1] {
			continue
		}
		tn, ok := p.Scope().Lookup(parts[2]).(*types.TypeName)
		if !ok {
			continue
		}
		st, ok := tn.Type().Underlying().(*types.Struct)
		if !ok {
			continue
		}
		for i := 0; i < st.NumFields(); i++ {
			f := st.Field(i)
			if f.Name() != parts[3] || isStruct(f.Type()) {
				continue
			}
			var out [][2]string
			for _, c := range flatten(f.Type()) {
				hn := fieldHeap(tn.Type(), f.Name(), c.Suffix)
				if hn == prefix || strings.HasPrefix(hn, prefix+".") {
					e.heapSort[hn] = arrSort(c.Sort)
					out = append(out, [2]string{hn, arrSort(c.Sort)})
				}
			}
			return out
		}
	}
	return nil
}
