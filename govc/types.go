package main

import (
	"fmt"
	"go/types"
	"math/big"
	"strings"
)

// Comp is one SMT-level component of a flattened Go value.
type Comp struct {
	Suffix string     // "" for scalars, ".arr" ".off" ... for slices, ".f.g" for struct fields
	Sort   string     // Int | Bool
	T      types.Type // leaf Go type (for range facts); for slice parts the slice type
	Part   string     // "", arr, off, len, cap, tag, val
}

// Val is a translated Go value: its static type and one SMT term per component.
type Val struct {
	T types.Type
	C []string
}

func under(t types.Type) types.Type {
	if t == nil {
		return nil
	}
	return t.Underlying()
}

func flatten(t types.Type) []Comp {
	switch u := under(t).(type) {
	case *types.Basic:
		if u.Info()&types.IsBoolean != 0 {
			return []Comp{{"", "Bool", t, ""}}
		}
		if u.Kind() == types.UntypedNil {
			return []Comp{{"", "Int", t, ""}}
		}
		return []Comp{{"", "Int", t, ""}}
	case *types.Pointer, *types.Map, *types.Chan, *types.Signature:
		return []Comp{{"", "Int", t, ""}}
	case *types.Slice:
		return []Comp{{".arr", "Int", t, "arr"}, {".off", "Int", t, "off"}, {".len", "Int", t, "len"}, {".cap", "Int", t, "cap"}}
	case *types.Interface:
		return []Comp{{".tag", "Int", t, "tag"}, {".val", "Int", t, "val"}}
	case *types.Struct:
		var out []Comp
		for i := 0; i < u.NumFields(); i++ {
			f := u.Field(i)
			for _, c := range flatten(f.Type()) {
				out = append(out, Comp{"." + f.Name() + c.Suffix, c.Sort, c.T, c.Part})
			}
		}
		return out
	case *types.Tuple:
		var out []Comp
		for i := 0; i < u.Len(); i++ {
			for _, c := range flatten(u.At(i).Type()) {
				out = append(out, Comp{fmt.Sprintf(".%d%s", i, c.Suffix), c.Sort, c.T, c.Part})
			}
		}
		return out
	case *types.Array:
		// arrays only occur behind pointers (varargs temporaries); value = array id
		return []Comp{{"", "Int", t, ""}}
	}
	panic(fmt.Sprintf("flatten: unsupported type %v", t))
}

func ncomps(t types.Type) int { return len(flatten(t)) }

// typeKey gives a stable name for a type, used in heap names.
func typeKey(t types.Type) string {
	s := types.TypeString(t, func(p *types.Package) string { return p.Name() })
	s = strings.ReplaceAll(s, "|", "!")
	s = strings.ReplaceAll(s, "\\", "!")
	if len(s) > 60 {
		s = s[:60]
	}
	return s
}

func structKey(t types.Type) string {
	if n, ok := t.(*types.Named); ok {
		if n.Obj().Pkg() != nil {
			return n.Obj().Pkg().Name() + "." + n.Obj().Name()
		}
		return n.Obj().Name()
	}
	if a, ok := t.(*types.Alias); ok {
		return structKey(types.Unalias(a))
	}
	return typeKey(t)
}

func q(s string) string { return "|" + s + "|" }

func intRange(t types.Type) (lo, hi *big.Int, ok bool) {
	b, isb := under(t).(*types.Basic)
	if !isb {
		return nil, nil, false
	}
	two := big.NewInt(2)
	pow := func(n int64) *big.Int { return new(big.Int).Exp(two, big.NewInt(n), nil) }
	m1 := func(x *big.Int) *big.Int { return new(big.Int).Sub(x, big.NewInt(1)) }
	switch b.Kind() {
	case types.Int8:
		return new(big.Int).Neg(pow(7)), m1(pow(7)), true
	case types.Int16:
		return new(big.Int).Neg(pow(15)), m1(pow(15)), true
	case types.Int32:
		return new(big.Int).Neg(pow(31)), m1(pow(31)), true
	case types.Int, types.Int64:
		return new(big.Int).Neg(pow(63)), m1(pow(63)), true
	case types.Uint8:
		return big.NewInt(0), m1(pow(8)), true
	case types.Uint16:
		return big.NewInt(0), m1(pow(16)), true
	case types.Uint32:
		return big.NewInt(0), m1(pow(32)), true
	case types.Uint, types.Uint64, types.Uintptr:
		return big.NewInt(0), m1(pow(64)), true
	}
	return nil, nil, false
}

func isUnsigned(t types.Type) bool {
	b, ok := under(t).(*types.Basic)
	return ok && b.Info()&types.IsUnsigned != 0
}
func isInteger(t types.Type) bool {
	b, ok := under(t).(*types.Basic)
	return ok && b.Info()&types.IsInteger != 0
}
func isBool(t types.Type) bool {
	b, ok := under(t).(*types.Basic)
	return ok && b.Info()&types.IsBoolean != 0
}
func isString(t types.Type) bool {
	b, ok := under(t).(*types.Basic)
	return ok && b.Info()&types.IsString != 0
}
func bitWidth(t types.Type) int {
	b, ok := under(t).(*types.Basic)
	if !ok {
		return 64
	}
	switch b.Kind() {
	case types.Int8, types.Uint8:
		return 8
	case types.Int16, types.Uint16:
		return 16
	case types.Int32, types.Uint32:
		return 32
	}
	return 64
}

func num(x *big.Int) string {
	if x.Sign() < 0 {
		return "(- " + new(big.Int).Neg(x).String() + ")"
	}
	return x.String()
}
func numi(x int64) string { return num(big.NewInt(x)) }

// MAXLEN: assumed upper bound on any slice length/capacity/offset (address-space
// argument: amd64 user space is at most 2^56 bytes). Listed in trusted_base.
const maxLenStr = "72057594037927936" // 2^56

// rangeFact returns an SMT formula stating that the components hold a value of type t.
func rangeFact(t types.Type, c []string) string {
	comps := flatten(t)
	var fs []string
	for i, cp := range comps {
		switch cp.Part {
		case "":
			if lo, hi, ok := intRange(cp.T); ok {
				fs = append(fs, fmt.Sprintf("(<= %s %s)", num(lo), c[i]), fmt.Sprintf("(<= %s %s)", c[i], num(hi)))
			} else if cp.Sort == "Int" {
				fs = append(fs, fmt.Sprintf("(<= 0 %s)", c[i]))
			}
		case "arr":
			// arr off len cap follow
			a, o, l, cp2 := c[i], c[i+1], c[i+2], c[i+3]
			fs = append(fs, fmt.Sprintf("(<= 0 %s)", a), fmt.Sprintf("(<= 0 %s)", o), fmt.Sprintf("(<= 0 %s)", l),
				fmt.Sprintf("(<= %s %s)", l, cp2), fmt.Sprintf("(<= (+ %s %s) %s)", o, cp2, maxLenStr),
				fmt.Sprintf("(=> (= %s 0) (= %s 0))", a, cp2))
		case "tag":
			fs = append(fs, fmt.Sprintf("(<= 0 %s)", c[i]), fmt.Sprintf("(<= 0 %s)", c[i+1]),
				fmt.Sprintf("(=> (= %s 0) (= %s 0))", c[i], c[i+1]))
		}
	}
	if len(fs) == 0 {
		return "true"
	}
	return "(and " + strings.Join(fs, " ") + ")"
}

// refComps returns the indices of components that are references (object refs or array ids).
func refComps(t types.Type) []int {
	var out []int
	for i, cp := range flatten(t) {
		switch cp.Part {
		case "arr", "val":
			out = append(out, i)
		case "":
			switch under(cp.T).(type) {
			case *types.Pointer, *types.Map, *types.Chan:
				out = append(out, i)
			}
		}
	}
	return out
}

func and(fs ...string) string {
	var out []string
	for _, f := range fs {
		if f == "true" || f == "" {
			continue
		}
		out = append(out, f)
	}
	if len(out) == 0 {
		return "true"
	}
	if len(out) == 1 {
		return out[0]
	}
	return "(and " + strings.Join(out, " ") + ")"
}
func or(fs ...string) string {
	var out []string
	for _, f := range fs {
		if f == "false" || f == "" {
			continue
		}
		out = append(out, f)
	}
	if len(out) == 0 {
		return "false"
	}
	if len(out) == 1 {
		return out[0]
	}
	return "(or " + strings.Join(out, " ") + ")"
}
func not(f string) string {
	if f == "true" {
		return "false"
	}
	if f == "false" {
		return "true"
	}
	return "(not " + f + ")"
}
func imp(a, b string) string {
	if a == "true" {
		return b
	}
	return "(=> " + a + " " + b + ")"
}
func eq(a, b string) string  { return "(= " + a + " " + b + ")" }
func ite(c, a, b string) string { return "(ite " + c + " " + a + " " + b + ")" }
func sel(a, i string) string { return "(select " + a + " " + i + ")" }
func sto(a, i, v string) string { return "(store " + a + " " + i + " " + v + ")" }
// splitConst decomposes a term into (base, constant): "(+ B k)" -> (B, k), "k" -> ("", k).
func splitConst(t string) (string, *big.Int) {
	if n, ok := parseNum(t); ok {
		return "", n
	}
	if strings.HasPrefix(t, "(+ ") && strings.HasSuffix(t, ")") {
		// last argument numeric?
		inner := t[3 : len(t)-1]
		args := splitArgs(inner)
		if len(args) == 2 {
			if n, ok := parseNum(args[1]); ok {
				return args[0], n
			}
			if n, ok := parseNum(args[0]); ok {
				return args[1], n
			}
		}
	}
	return t, big.NewInt(0)
}

func parseNum(t string) (*big.Int, bool) {
	if strings.HasPrefix(t, "(- ") && strings.HasSuffix(t, ")") {
		inner := strings.TrimSpace(t[3 : len(t)-1])
		if n, ok := new(big.Int).SetString(inner, 10); ok && !strings.ContainsAny(inner, " ()") {
			return n.Neg(n), true
		}
		return nil, false
	}
	if t == "" || strings.ContainsAny(t, " ()|") {
		return nil, false
	}
	n, ok := new(big.Int).SetString(t, 10)
	return n, ok
}

// splitArgs splits the argument list of an s-expression at top level.
func splitArgs(s string) []string {
	var out []string
	depth := 0
	start := 0
	inBar := false
	for i := 0; i < len(s); i++ {
		ch := s[i]
		if inBar {
			if ch == '|' {
				inBar = false
			}
			continue
		}
		switch ch {
		case '|':
			inBar = true
		case '(':
			depth++
		case ')':
			depth--
		case ' ':
			if depth == 0 {
				if i > start {
					out = append(out, s[start:i])
				}
				start = i + 1
			}
		}
	}
	if start < len(s) {
		out = append(out, s[start:])
	}
	return out
}

func mkSum(base string, c *big.Int) string {
	if base == "" {
		return num(c)
	}
	if c.Sign() == 0 {
		return base
	}
	return "(+ " + base + " " + num(c) + ")"
}

func add(a, b string) string {
	ba, ca := splitConst(a)
	bb, cb := splitConst(b)
	c := new(big.Int).Add(ca, cb)
	switch {
	case ba == "" && bb == "":
		return num(c)
	case ba == "":
		return mkSum(bb, c)
	case bb == "":
		return mkSum(ba, c)
	}
	return mkSum("(+ "+ba+" "+bb+")", c)
}
func sub(a, b string) string {
	ba, ca := splitConst(a)
	bb, cb := splitConst(b)
	c := new(big.Int).Sub(ca, cb)
	switch {
	case bb == "":
		return mkSum(ba, c)
	case ba == bb:
		return num(c)
	case ba == "":
		return mkSum("(- "+bb+")", c)
	}
	return mkSum("(- "+ba+" "+bb+")", c)
}
func le(a, b string) string { return "(<= " + a + " " + b + ")" }
func lt(a, b string) string { return "(< " + a + " " + b + ")" }

func eqComps(a, b []string) string {
	if len(a) != len(b) {
		panic(fmt.Sprintf("eqComps: %d vs %d", len(a), len(b)))
	}
	var fs []string
	for i := range a {
		fs = append(fs, eq(a[i], b[i]))
	}
	return and(fs...)
}
