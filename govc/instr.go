package main

import (
	"go/ast"
	"fmt"
	"go/constant"
	"go/token"
	"go/types"
	"math/big"
	"strings"

	"golang.org/x/tools/go/ssa"
)

func (t *fnTrans) setVal(v ssa.Value, x Val) { t.vals[v] = x }

// define introduces named constants for a computed value (keeps terms small).
func (t *fnTrans) define(v ssa.Value, T types.Type, comps []string) Val {
	out := t.freshVal(v.Name(), T)
	t.assumeRaw(eqComps(out.C, comps))
	t.vals[v] = out
	return out
}

func (t *fnTrans) nilCheck(ins ssa.Instruction, ref string) {
	if strings.HasPrefix(ref, "|ref!") || strings.HasPrefix(ref, "(subobj") {
		return
	}
	t.oblig("nil", ins, "", not(eq(ref, "0")), "nil dereference")
}

func (t *fnTrans) instr(ins ssa.Instruction) {
	switch x := ins.(type) {
	case *ssa.DebugRef:
		// remember which SSA value a source-level local currently names (for atcall / step clauses)
		if id, ok := x.Expr.(*ast.Ident); ok && x.IsAddr {
			// an address-taken local: remember its cell; clauses see its current content under the variable's name
			if lv, known := t.lvals[x.X]; known && lv.Kind == lvCell {
				t.locals = append(t.locals, localBinding{name: id.Name, blk: x.Block(), cell: lv})
			}
		}
		if id, ok := x.Expr.(*ast.Ident); ok && !x.IsAddr {
			if v, known := t.vals[x.X]; known {
				t.locals = append(t.locals, localBinding{name: id.Name, blk: x.Block(), val: v})
			} else if _, isConst := x.X.(*ssa.Const); isConst {
				t.locals = append(t.locals, localBinding{name: id.Name, blk: x.Block(), val: t.val(x.X)})
			}
		}
		return
	case *ssa.Alloc:
		T := x.Type().(*types.Pointer).Elem()
		ref := t.alloc(t.st)
		if isStruct(T) {
			lv := &LVal{Kind: lvObj, Ref: ref, S: T, T: T}
			t.storeObj(t.st, ref, T, zeroComps(T))
			t.lvals[x] = lv
		} else if at, ok := under(T).(*types.Array); ok {
			// fresh array, all elements zero
			for _, c := range flatten(at.Elem()) {
				hn := elemHeap(at.Elem(), c.Suffix)
				h := t.heapGet(t.st, hn, arr2Sort(c.Sort))
				z := "0"
				if c.Sort == "Bool" {
					z = "false"
				}
				t.heapSet(t.st, hn, arr2Sort(c.Sort), sto(h, ref, fmt.Sprintf("((as const (Array Int %s)) %s)", c.Sort, z)))
			}
			t.lvals[x] = &LVal{Kind: lvArr, Ref: ref, ElemT: at.Elem(), T: T}
		} else {
			lv := &LVal{Kind: lvCell, Ref: ref, T: T}
			t.store(t.st, lv, Val{T, zeroComps(T)})
			t.lvals[x] = lv
		}
	case *ssa.FieldAddr:
		base := t.lval(x.X)
		if base.Kind == lvObj {
			t.nilCheck(x, base.Ref)
		}
		t.lvals[x] = t.fieldAddr(base, x.Field, x)
	case *ssa.Field:
		v := t.val(x.X)
		su := under(x.X.Type()).(*types.Struct)
		k := 0
		for i := 0; i < x.Field; i++ {
			k += ncomps(su.Field(i).Type())
		}
		n := ncomps(su.Field(x.Field).Type())
		t.vals[x] = Val{x.Type(), v.C[k : k+n]}
	case *ssa.IndexAddr:
		idx := t.val(x.Index).C[0]
		switch bt := under(x.X.Type()).(type) {
		case *types.Slice:
			s := t.val(x.X)
			t.oblig("bounds", x, "", and(le("0", idx), lt(idx, s.C[2])), "index out of range")
			t.lvals[x] = &LVal{Kind: lvElem, Ref: s.C[0], Idx: add(s.C[1], idx), ElemT: bt.Elem(), T: bt.Elem()}
		case *types.Pointer:
			at := under(bt.Elem()).(*types.Array)
			base := t.lval(x.X)
			t.oblig("bounds", x, "", and(le("0", idx), lt(idx, fmt.Sprint(at.Len()))), "index out of range")
			if base.Kind == lvArr {
				t.lvals[x] = &LVal{Kind: lvElem, Ref: base.Ref, Idx: idx, ElemT: at.Elem(), T: at.Elem()}
			} else {
				t.errorf("IndexAddr on unsupported array pointer")
			}
		default:
			t.errorf("IndexAddr on %v", x.X.Type())
		}
	case *ssa.Index:
		idx := t.val(x.Index).C[0]
		if isString(x.X.Type()) {
			s := t.val(x.X)
			t.oblig("bounds", x, "", and(le("0", idx), lt(idx, "(strlen "+s.C[0]+")")), "string index out of range")
			t.define(x, x.Type(), []string{"(strbyte " + s.C[0] + " " + idx + ")"})
		} else {
			t.errorf("Index on %v", x.X.Type())
		}
	case *ssa.UnOp:
		t.unop(x)
	case *ssa.Store:
		lv := t.lval(x.Addr)
		if lv.Kind == lvCell || lv.Kind == lvObj {
			t.nilCheck(x, lv.Ref)
		}
		t.store(t.st, lv, t.val(x.Val))
	case *ssa.BinOp:
		t.binop(x)
	case *ssa.Convert:
		t.convert(x)
	case *ssa.ChangeType:
		v := t.val(x.X)
		t.vals[x] = Val{x.Type(), v.C}
	case *ssa.ChangeInterface:
		v := t.val(x.X)
		t.vals[x] = Val{x.Type(), v.C}
	case *ssa.Slice:
		t.slice(x)
	case *ssa.MakeSlice:
		t.makeSlice(x)
	case *ssa.Extract:
		tup := t.val(x.Tuple)
		tt := x.Tuple.Type().(*types.Tuple)
		k := 0
		for i := 0; i < x.Index; i++ {
			k += ncomps(tt.At(i).Type())
		}
		n := ncomps(tt.At(x.Index).Type())
		t.vals[x] = Val{x.Type(), tup.C[k : k+n]}
	case *ssa.Call:
		t.call(x, &x.Call, x)
	case *ssa.Go:
		// `go f(args)`: the new goroutine's effects reach this one only as interference at yield points (the rely
		// clauses of the functions involved); here the statement only counts as a spawn (ghost counter nspawn)
		hn := "GF.nspawn"
		t.eng.heapSort[hn] = "(Array Int Int)"
		h := t.heapGet(t.st, hn, "(Array Int Int)")
		t.heapSet(t.st, hn, "(Array Int Int)", sto(h, "0", add(sel(h, "0"), "1")))
		if x.Call.IsInvoke() {
			t.errorf("go statement on an interface method is not modelled")
		}
	case *ssa.Defer:
		t.st.defers = append(t.st.defers, x)
	case *ssa.RunDefers:
		for i := len(t.st.defers) - 1; i >= 0; i-- {
			d := t.st.defers[i]
			t.call(x, &d.Call, nil)
		}
		t.st.defers = nil
	case *ssa.MakeInterface:
		t.makeInterface(x)
	case *ssa.TypeAssert:
		t.typeAssert(x)
	case *ssa.Lookup:
		t.lookup(x)
	case *ssa.MapUpdate:
		t.mapUpdate(x)
	case *ssa.MakeMap:
		ref := t.alloc(t.st)
		mt := under(x.Type()).(*types.Map)
		dn, ds := mapDomHeap(mt)
		h := t.heapGet(t.st, dn, ds)
		t.heapSet(t.st, dn, ds, sto(h, ref, "((as const (Array Int Bool)) false)"))
		t.vals[x] = Val{x.Type(), []string{ref}}
	case *ssa.MakeClosure:
		t.makeClosure(x)
	case *ssa.Range:
		// iteration over a map: a ghost set of visited keys (heap $iter.<name>), empty at the range statement; the
		// map's key set at this point is remembered (iteration is only modelled over an unchanging key set)
		mt, ok := under(x.X.Type()).(*types.Map)
		if !ok {
			t.errorf("range over %v is not modelled", x.X.Type())
			return
		}
		m := t.val(x.X).C[0]
		hn := "$iter." + x.Name()
		t.eng.heapSort[hn] = "(Array Int Bool)"
		t.heapGet(t.st, hn, "(Array Int Bool)")
		t.heapSet(t.st, hn, "(Array Int Bool)", "((as const (Array Int Bool)) false)")
		dn, ds := mapDomHeap(mt)
		dom0 := t.freshConst("dom0", "(Array Int Bool)")
		t.assumeRaw(eq(dom0, sel(t.heapGet(t.st, dn, ds), m)))
		if t.iters == nil {
			t.iters = map[*ssa.Range]*mapIter{}
		}
		t.iters[x] = &mapIter{m: m, mt: mt, heap: hn, dom0: dom0}
		t.vals[x] = Val{x.Type(), []string{"0"}}
	case *ssa.Next:
		rg, ok := x.Iter.(*ssa.Range)
		it := t.iters[rg]
		if x.IsString || !ok || it == nil {
			t.errorf("next over a string or an unknown iterator is not modelled")
			return
		}
		dn, ds := mapDomHeap(it.mt)
		row := sel(t.heapGet(t.st, dn, ds), it.m)
		// the key set must be the one seen at the range statement (Go leaves the effect of insertions during
		// iteration unspecified; such loops are outside the model)
		t.oblig("maprange", x, "", or(eq(it.m, "0"), eq(row, it.dom0)), "the map's key set is unchanged since the range statement")
		vis := t.heapGet(t.st, it.heap, "(Array Int Bool)")
		okc := t.freshConst(x.Name()+".ok", "Bool")
		kv := t.freshVal(x.Name()+".k", it.mt.Key())
		vv := t.freshVal(x.Name()+".v", it.mt.Elem())
		if len(kv.C) != 1 {
			t.errorf("range over a map with a composite key is not modelled")
			return
		}
		k := t.mapKey(kv)
		var rd []string
		for _, c := range flatten(it.mt.Elem()) {
			vn, vs := mapValHeap(it.mt, c.Suffix, c.Sort)
			rd = append(rd, sel(sel(t.heapGet(t.st, vn, vs), it.m), k))
		}
		t.assumeRaw(imp(okc, and(not(eq(it.m, "0")), sel(row, k), not(sel(vis, k)), eqComps(vv.C, rd))))
		t.assume(imp(okc, and(t.valueFacts(t.st, kv), t.valueFacts(t.st, vv))))
		t.nfr++
		bv := q(fmt.Sprintf("it!q%d", t.nfr))
		t.assume(imp(not(okc), or(eq(it.m, "0"), fmt.Sprintf("(forall ((%s Int)) (! %s :pattern ((select %s %s)) :pattern ((select %s %s))))", bv, imp(sel(row, bv), sel(vis, bv)), row, bv, vis, bv))))
		t.heapSet(t.st, it.heap, "(Array Int Bool)", ite(okc, sto(vis, k, "true"), vis))
		t.vals[x] = Val{x.Type(), append(append([]string{okc}, kv.C...), vv.C...)}
	case *ssa.If:
		c := t.val(x.Cond).C[0]
		t.finishEdges(x.Block(), c)
	case *ssa.Jump:
		t.finishEdges(x.Block(), "true")
	case *ssa.Return:
		t.ret(x)
	case *ssa.Panic:
		if !t.ct.MayPanic {
			t.oblig("unreachable", x, "", "false", "explicit panic reachable")
		}
	default:
		t.errorf("unsupported instruction %T: %s", ins, ins)
	}
}

func (t *fnTrans) unop(x *ssa.UnOp) {
	switch x.Op {
	case token.MUL: // load
		lv := t.lval(x.X)
		if lv.Kind == lvCell || lv.Kind == lvObj {
			t.nilCheck(x, lv.Ref)
		}
		v := t.load(t.st, lv)
		out := t.define(x, x.Type(), v.C)
		t.assume(t.valueFactsTop(t.readTop(t.st, lvalHeaps(lv)), out))
	case token.NOT:
		t.vals[x] = Val{x.Type(), []string{not(t.val(x.X).C[0])}}
	case token.SUB:
		v := t.val(x.X).C[0]
		r := "(- " + v + ")"
		if isUnsigned(x.Type()) {
			r = wrapU(r, bitWidth(x.Type()))
		} else if !t.ct.NoOverflow {
			lo, hi, _ := intRange(x.Type())
			t.oblig("overflow", x, "", and(le(num(lo), r), le(r, num(hi))), "negation overflow")
		}
		t.define(x, x.Type(), []string{r})
	case token.XOR:
		v := t.val(x.X).C[0]
		w := bitWidth(x.Type())
		if isUnsigned(x.Type()) {
			m := new(big.Int).Sub(new(big.Int).Lsh(big.NewInt(1), uint(w)), big.NewInt(1))
			t.define(x, x.Type(), []string{sub(m.String(), v)})
		} else {
			t.define(x, x.Type(), []string{"(- (- " + v + ") 1)"})
		}
	default:
		t.errorf("unsupported unary op %s", x.Op)
	}
}

func wrapU(e string, w int) string {
	m := new(big.Int).Lsh(big.NewInt(1), uint(w))
	return "(mod " + e + " " + m.String() + ")"
}

func constInt(v ssa.Value) (*big.Int, bool) {
	c, ok := v.(*ssa.Const)
	if !ok || c.Value == nil || c.Value.Kind() != constant.Int {
		return nil, false
	}
	bi, ok := new(big.Int).SetString(c.Value.ExactString(), 10)
	return bi, ok
}

func pow2(k int) string { return new(big.Int).Lsh(big.NewInt(1), uint(k)).String() }

// bitExpr builds the value of a bitwise operation over w bits by bit expansion.
func bitExpr(op token.Token, a, b string, w int) string {
	var terms []string
	for i := 0; i < w; i++ {
		ba := fmt.Sprintf("(mod (div %s %s) 2)", a, pow2(i))
		bb := fmt.Sprintf("(mod (div %s %s) 2)", b, pow2(i))
		var bit string
		switch op {
		case token.AND:
			bit = fmt.Sprintf("(* %s %s)", ba, bb) // both in {0,1}: nonlinear; replaced below
			bit = ite(and(eq(ba, "1"), eq(bb, "1")), "1", "0")
		case token.OR:
			bit = ite(or(eq(ba, "1"), eq(bb, "1")), "1", "0")
		case token.XOR:
			bit = ite(eq(ba, bb), "0", "1")
		case token.AND_NOT:
			bit = ite(and(eq(ba, "1"), eq(bb, "0")), "1", "0")
		}
		terms = append(terms, fmt.Sprintf("(* %s %s)", pow2(i), bit))
	}
	return "(+ " + strings.Join(terms, " ") + ")"
}

// bitConst: x op c with constant c over w bits.
func bitConst(op token.Token, a string, c *big.Int, w int) string {
	// masks of the form 2^k-1
	if op == token.AND {
		c1 := new(big.Int).Add(c, big.NewInt(1))
		if c.Sign() == 0 {
			return "0"
		}
		if c1.BitLen() > 0 && new(big.Int).And(c1, c).Sign() == 0 {
			return "(mod " + a + " " + c1.String() + ")"
		}
	}
	var terms []string
	for i := 0; i < w; i++ {
		ba := fmt.Sprintf("(mod (div %s %s) 2)", a, pow2(i))
		cb := c.Bit(i)
		var bit string
		switch op {
		case token.AND:
			if cb == 1 {
				bit = ba
			} else {
				continue
			}
		case token.OR:
			if cb == 1 {
				bit = "1"
			} else {
				bit = ba
			}
		case token.XOR:
			if cb == 1 {
				bit = "(- 1 " + ba + ")"
			} else {
				bit = ba
			}
		case token.AND_NOT:
			if cb == 1 {
				continue
			} else {
				bit = ba
			}
		}
		terms = append(terms, fmt.Sprintf("(* %s %s)", pow2(i), bit))
	}
	if len(terms) == 0 {
		return "0"
	}
	if len(terms) == 1 {
		return terms[0]
	}
	return "(+ " + strings.Join(terms, " ") + ")"
}

// arith translates a binary operation on integer terms of Go type T.
// Returns the term and an overflow side condition ("" if none).
func arithOp(op token.Token, a, b string, T types.Type, ca, cb *big.Int) (res string, side string, kind string, err error) {
	w := bitWidth(T)
	uns := isUnsigned(T)
	inRange := func(e string) string {
		lo, hi, _ := intRange(T)
		return and(le(num(lo), e), le(e, num(hi)))
	}
	switch op {
	case token.ADD, token.SUB, token.MUL:
		var e string
		switch op {
		case token.ADD:
			e = add(a, b)
		case token.SUB:
			e = sub(a, b)
		default:
			e = "(* " + a + " " + b + ")"
		}
		if uns {
			return wrapU(e, w), "", "", nil
		}
		return e, inRange(e), "overflow", nil
	case token.QUO:
		// Go truncates toward zero
		e := fmt.Sprintf("(ite (>= %s 0) (div %s %s) (- (div (- %s) %s)))", a, a, b, a, b)
		if uns {
			e = "(div " + a + " " + b + ")"
		}
		return e, not(eq(b, "0")), "div", nil
	case token.REM:
		e := fmt.Sprintf("(ite (>= %s 0) (mod %s %s) (- (mod (- %s) %s)))", a, a, b, a, b)
		if uns {
			e = "(mod " + a + " " + b + ")"
		}
		return e, not(eq(b, "0")), "div", nil
	case token.SHL:
		if cb != nil && cb.IsInt64() && cb.Int64() < 64 {
			e := "(* " + a + " " + pow2(int(cb.Int64())) + ")"
			if uns {
				return wrapU(e, w), "", "", nil
			}
			return e, inRange(e), "overflow", nil
		}
		return "(shl " + a + " " + b + ")", "", "", nil
	case token.SHR:
		if cb != nil && cb.IsInt64() && cb.Int64() < 64 {
			return "(div " + a + " " + pow2(int(cb.Int64())) + ")", "", "", nil
		}
		return "(shr " + a + " " + b + ")", "", "", nil
	case token.AND, token.OR, token.XOR, token.AND_NOT:
		if cb != nil && cb.Sign() >= 0 && (w <= 16 || op == token.AND) {
			if w > 16 {
				// AND with a non-negative constant on a wide operand: only mask forms
				c1 := new(big.Int).Add(cb, big.NewInt(1))
				if new(big.Int).And(c1, cb).Sign() == 0 {
					if uns {
						return "(mod " + a + " " + c1.String() + ")", "", "", nil
					}
					// signed: Go's & on negative numbers is two's complement; mod is the euclidean remainder, which agrees
					return "(mod " + a + " " + c1.String() + ")", "", "", nil
				}
				return fmt.Sprintf("(band%d %s %s)", w, a, b), "", "", nil
			}
			return bitConst(op, a, cb, w), "", "", nil
		}
		if ca != nil && ca.Sign() >= 0 && w <= 16 && op != token.AND_NOT {
			return bitConst(op, b, ca, w), "", "", nil
		}
		if w <= 16 {
			return bitExpr(op, a, b, w), "", "", nil
		}
		name := map[token.Token]string{token.AND: "band", token.OR: "bor", token.XOR: "bxor", token.AND_NOT: "bandnot"}[op]
		return fmt.Sprintf("(%s%d %s %s)", name, w, a, b), "", "", nil
	}
	return "", "", "", fmt.Errorf("unsupported arithmetic op %s", op)
}

func (t *fnTrans) binop(x *ssa.BinOp) {
	a, b := t.val(x.X), t.val(x.Y)
	T := x.X.Type()
	switch x.Op {
	case token.EQL, token.NEQ:
		var f string
		if isString(T) {
			f = t.eng.strEq(a.C[0], b.C[0])
		} else {
			f = eqComps(a.C, b.C)
			if _, isSlice := under(T).(*types.Slice); isSlice {
				// only comparison with nil is legal
				if isNilConst(x.Y) {
					f = eq(a.C[0], "0")
				} else {
					f = eq(b.C[0], "0")
				}
			}
		}
		if x.Op == token.NEQ {
			f = not(f)
		}
		t.define(x, x.Type(), []string{f})
		return
	case token.LSS, token.LEQ, token.GTR, token.GEQ:
		if !isInteger(T) {
			t.errorf("comparison on %v", T)
			return
		}
		o := map[token.Token]string{token.LSS: "<", token.LEQ: "<=", token.GTR: ">", token.GEQ: ">="}[x.Op]
		t.define(x, x.Type(), []string{"(" + o + " " + a.C[0] + " " + b.C[0] + ")"})
		return
	}
	if isBool(T) {
		t.errorf("bool binop %s", x.Op)
		return
	}
	if isString(T) && x.Op == token.ADD {
		t.define(x, x.Type(), []string{"(strcat " + a.C[0] + " " + b.C[0] + ")"})
		return
	}
	if !isInteger(x.Type()) {
		t.errorf("binop %s on %v", x.Op, T)
		return
	}
	ca, _ := constInt(x.X)
	cb, _ := constInt(x.Y)
	res, side, kind, err := arithOp(x.Op, a.C[0], b.C[0], x.Type(), ca, cb)
	if err != nil {
		t.errorf("%v", err)
		return
	}
	if side != "" && !(kind == "overflow" && t.ct.NoOverflow) {
		t.oblig(kind, x, "", side, fmt.Sprintf("%s in %s", kind, x.String()))
	}
	t.define(x, x.Type(), []string{res})
}

func isNilConst(v ssa.Value) bool {
	c, ok := v.(*ssa.Const)
	return ok && c.Value == nil
}

func (t *fnTrans) convert(x *ssa.Convert) {
	from, to := x.X.Type(), x.Type()
	v := t.val(x.X)
	switch {
	case isInteger(from) && isInteger(to):
		t.define(x, to, []string{convInt(v.C[0], from, to)})
	case isString(to):
		if sl, ok := under(from).(*types.Slice); ok && isInteger(sl.Elem()) {
			h := t.heapGet(t.st, elemHeap(sl.Elem(), ""), arr2Sort("Int"))
			t.define(x, to, []string{fmt.Sprintf("(strof %s %s %s)", sel(h, v.C[0]), v.C[1], v.C[2])})
			out := t.vals[x]
			t.assume(eq("(strlen "+out.C[0]+")", v.C[2]))
			return
		}
		if isInteger(from) {
			t.define(x, to, []string{"(strofrune " + v.C[0] + ")"})
			return
		}
		t.errorf("convert %v -> string", from)
	case isString(from):
		if sl, ok := under(to).(*types.Slice); ok && isInteger(sl.Elem()) {
			// fresh copy of the bytes
			ref := t.alloc(t.st)
			hn := elemHeap(sl.Elem(), "")
			h := t.heapGet(t.st, hn, arr2Sort("Int"))
			t.heapSet(t.st, hn, arr2Sort("Int"), sto(h, ref, "(strarr "+v.C[0]+")"))
			ln := "(strlen " + v.C[0] + ")"
			t.define(x, to, []string{ref, "0", ln, ln})
			return
		}
		t.errorf("convert string -> %v", to)
	default:
		// pointer <-> unsafe etc.
		if len(v.C) == ncomps(to) {
			t.vals[x] = Val{to, v.C}
			return
		}
		t.errorf("unsupported conversion %v -> %v", from, to)
	}
}

// convInt: Go integer conversion semantics (wrap-around), exact.
func convInt(e string, from, to types.Type) string {
	flo, fhi, _ := intRange(from)
	tlo, thi, _ := intRange(to)
	if flo.Cmp(tlo) >= 0 && fhi.Cmp(thi) <= 0 {
		return e // widening
	}
	w := bitWidth(to)
	if isUnsigned(to) {
		return wrapU(e, w)
	}
	// signed narrowing: ((e + 2^(w-1)) mod 2^w) - 2^(w-1)
	h := pow2(w - 1)
	return fmt.Sprintf("(- (mod (+ %s %s) %s) %s)", e, h, pow2(w), h)
}

func (t *fnTrans) slice(x *ssa.Slice) {
	var arr, off, ln, cp string
	var T types.Type = x.Type()
	switch bt := under(x.X.Type()).(type) {
	case *types.Slice:
		s := t.val(x.X)
		arr, off, ln, cp = s.C[0], s.C[1], s.C[2], s.C[3]
	case *types.Pointer:
		at := under(bt.Elem()).(*types.Array)
		base := t.lval(x.X)
		if base.Kind != lvArr {
			t.errorf("slice of unsupported array pointer")
			return
		}
		arr, off, ln, cp = base.Ref, "0", fmt.Sprint(at.Len()), fmt.Sprint(at.Len())
	case *types.Basic: // string
		s := t.val(x.X)
		lo, hi := "0", "(strlen "+s.C[0]+")"
		if x.Low != nil {
			lo = t.val(x.Low).C[0]
		}
		if x.High != nil {
			hi = t.val(x.High).C[0]
		}
		t.oblig("slice", x, "", and(le("0", lo), le(lo, hi), le(hi, "(strlen "+s.C[0]+")")), "string slice bounds")
		t.define(x, T, []string{fmt.Sprintf("(strsub %s %s %s)", s.C[0], lo, hi)})
		out := t.vals[x]
		t.assume(eq("(strlen "+out.C[0]+")", sub(hi, lo)))
		return
	default:
		t.errorf("slice of %v", x.X.Type())
		return
	}
	lo, hi, mx := "0", ln, cp
	if x.Low != nil {
		lo = t.val(x.Low).C[0]
	}
	if x.High != nil {
		hi = t.val(x.High).C[0]
	}
	if x.Max != nil {
		mx = t.val(x.Max).C[0]
	}
	t.oblig("slice", x, "", and(le("0", lo), le(lo, hi), le(hi, mx), le(mx, cp)), "slice bounds out of range")
	if t.strict {
		t.oblig("strictslice", x, "", le(hi, ln), "slice extends beyond len of its operand (C04: never expose bytes beyond the input)")
	}
	t.define(x, T, []string{arr, add(off, lo), sub(hi, lo), sub(mx, lo)})
}

func (t *fnTrans) makeSlice(x *ssa.MakeSlice) {
	ln, cp := t.val(x.Len).C[0], t.val(x.Cap).C[0]
	t.oblig("makeslice", x, "", and(le("0", ln), le(ln, cp), le(cp, maxLenStr)), "makeslice: len out of range")
	if bound, ok := t.ct.Flags["allocbound"]; ok {
		t.oblig("alloc", x, "", le(cp, bound), "allocation size bounded by "+bound)
	}
	ref := t.alloc(t.st)
	et := under(x.Type()).(*types.Slice).Elem()
	for _, c := range flatten(et) {
		hn := elemHeap(et, c.Suffix)
		h := t.heapGet(t.st, hn, arr2Sort(c.Sort))
		z := "0"
		if c.Sort == "Bool" {
			z = "false"
		}
		t.heapSet(t.st, hn, arr2Sort(c.Sort), sto(h, ref, fmt.Sprintf("((as const (Array Int %s)) %s)", c.Sort, z)))
	}
	t.define(x, x.Type(), []string{ref, "0", ln, cp})
}

func (t *fnTrans) makeInterface(x *ssa.MakeInterface) {
	v := t.val(x.X)
	T := x.X.Type()
	tag := t.eng.typeID(T)
	var val string
	switch under(T).(type) {
	case *types.Pointer, *types.Map, *types.Chan, *types.Signature:
		val = v.C[0]
	case *types.Basic:
		if isBool(T) {
			val = ite(v.C[0], "1", "0")
		} else {
			val = v.C[0] // ints and string ids
			if isInteger(T) {
				// keep non-negative
				lo, _, _ := intRange(T)
				if lo.Sign() < 0 {
					val = sub(v.C[0], num(lo))
				}
			}
		}
	default:
		// boxed composite: fresh box id
		val = t.alloc(t.st)
		t.eng.boxTypes[typeKey(T)] = T
		for i, c := range flatten(T) {
			hn := "B." + typeKey(T) + c.Suffix
			h := t.heapGet(t.st, hn, arrSort(c.Sort))
			t.eng.heapSort[hn] = arrSort(c.Sort)
			t.heapSet(t.st, hn, arrSort(c.Sort), sto(h, val, v.C[i]))
		}
	}
	t.define(x, x.Type(), []string{tag, val})
}

func (t *fnTrans) unboxIface(st *State, iv Val, T types.Type) []string {
	switch under(T).(type) {
	case *types.Pointer, *types.Map, *types.Chan, *types.Signature:
		return []string{iv.C[1]}
	case *types.Basic:
		if isBool(T) {
			return []string{eq(iv.C[1], "1")}
		}
		if isInteger(T) {
			lo, _, _ := intRange(T)
			if lo.Sign() < 0 {
				return []string{add(iv.C[1], num(lo))}
			}
		}
		return []string{iv.C[1]}
	}
	var out []string
	for _, c := range flatten(T) {
		hn := "B." + typeKey(T) + c.Suffix
		t.eng.heapSort[hn] = arrSort(c.Sort)
		h := t.heapGet(st, hn, arrSort(c.Sort))
		out = append(out, sel(h, iv.C[1]))
	}
	return out
}

func (t *fnTrans) typeAssert(x *ssa.TypeAssert) {
	iv := t.val(x.X)
	AT := x.AssertedType
	var ok string
	var res []string
	if _, isIface := under(AT).(*types.Interface); isIface {
		// interface-to-interface: succeeds iff dynamic type implements AT; we only know nil fails
		okc := t.freshConst("taok", "Bool")
		t.assume(imp(eq(iv.C[0], "0"), not(okc)))
		// if the static source type already implements AT the assertion succeeds for non-nil values
		if types.Implements(x.X.Type(), under(AT).(*types.Interface)) {
			t.assume(imp(not(eq(iv.C[0], "0")), okc))
		}
		ok = okc
		res = []string{ite(okc, iv.C[0], "0"), ite(okc, iv.C[1], "0")}
	} else {
		ok = eq(iv.C[0], t.eng.typeID(AT))
		un := t.unboxIface(t.st, iv, AT)
		z := zeroComps(AT)
		for i := range un {
			res = append(res, ite(ok, un[i], z[i]))
		}
	}
	if x.CommaOk {
		v := t.freshVal(x.Name(), x.Type())
		t.assumeRaw(eqComps(v.C, append(res, ok)))
		t.vals[x] = v
		if _, isIface := under(AT).(*types.Interface); !isIface {
			t.assume(imp(ok, t.valueFacts(t.st, Val{AT, v.C[:len(v.C)-1]})))
		}
		return
	}
	if t.ct.Flags["maypanic-typeassert"] != "" {
		// a failing assertion panics (the caller recovers); execution continues only if it held
		t.assume(ok)
	} else {
		t.oblig("typeassert", x, "", ok, "type assertion may fail")
	}
	v := t.define(x, x.Type(), res)
	if _, isIface := under(AT).(*types.Interface); !isIface {
		t.assume(t.valueFacts(t.st, v))
	}
}

func mapDomHeap(mt *types.Map) (string, string) {
	return "M." + typeKey(mt.Key()) + "." + typeKey(mt.Elem()) + ".dom", "(Array Int (Array Int Bool))"
}
func mapValHeap(mt *types.Map, suffix, sort string) (string, string) {
	return "M." + typeKey(mt.Key()) + "." + typeKey(mt.Elem()) + ".val" + suffix, arr2Sort(sort)
}

// mapIter: the model of one `range m` over a map.
type mapIter struct {
	m    string     // the map reference
	mt   *types.Map // its type
	heap string     // ghost heap holding the set of keys already produced
	dom0 string     // the map's key set at the range statement
}

// countMapRanges: number of `range` statements over maps in the function.
func (t *fnTrans) countMapRanges() int {
	n := 0
	for _, b := range t.fn.Blocks {
		for _, ins := range b.Instrs {
			if r, ok := ins.(*ssa.Range); ok {
				if _, isMap := under(r.X.Type()).(*types.Map); isMap {
					n++
				}
			}
		}
	}
	return n
}

func (t *fnTrans) mapKey(v Val) string {
	if len(v.C) != 1 {
		t.errorf("unsupported map key type %v", v.T)
		return "0"
	}
	if isBool(v.T) {
		return ite(v.C[0], "1", "0")
	}
	return v.C[0]
}

func (t *fnTrans) mapRead(st *State, mt *types.Map, m, k string) (present string, val []string) {
	dn, ds := mapDomHeap(mt)
	present = and(not(eq(m, "0")), sel(sel(t.heapGet(st, dn, ds), m), k))
	for _, c := range flatten(mt.Elem()) {
		vn, vs := mapValHeap(mt, c.Suffix, c.Sort)
		val = append(val, sel(sel(t.heapGet(st, vn, vs), m), k))
	}
	return
}

func (t *fnTrans) lookup(x *ssa.Lookup) {
	mt, ok := under(x.X.Type()).(*types.Map)
	if !ok {
		t.errorf("Lookup on %v", x.X.Type())
		return
	}
	m := t.val(x.X).C[0]
	k := t.mapKey(t.val(x.Index))
	present, val := t.mapRead(t.st, mt, m, k)
	z := zeroComps(mt.Elem())
	var res []string
	for i := range val {
		res = append(res, ite(present, val[i], z[i]))
	}
	if x.CommaOk {
		v := t.freshVal(x.Name(), x.Type())
		t.assumeRaw(eqComps(v.C, append(res, present)))
		t.vals[x] = v
		t.assume(imp(present, t.valueFacts(t.st, Val{mt.Elem(), v.C[:len(v.C)-1]})))
		return
	}
	v := t.define(x, x.Type(), res)
	t.assume(imp(present, t.valueFacts(t.st, v)))
}

func (t *fnTrans) mapWrite(st *State, mt *types.Map, m, k string, val []string) {
	dn, ds := mapDomHeap(mt)
	h := t.heapGet(st, dn, ds)
	t.heapSet(st, dn, ds, sto(h, m, sto(sel(h, m), k, "true")))
	for i, c := range flatten(mt.Elem()) {
		vn, vs := mapValHeap(mt, c.Suffix, c.Sort)
		hv := t.heapGet(st, vn, vs)
		t.heapSet(st, vn, vs, sto(hv, m, sto(sel(hv, m), k, val[i])))
	}
}

func (t *fnTrans) mapUpdate(x *ssa.MapUpdate) {
	mt := under(x.Map.Type()).(*types.Map)
	m := t.val(x.Map).C[0]
	t.oblig("nil", x, "", not(eq(m, "0")), "assignment to entry in nil map")
	t.mapWrite(t.st, mt, m, t.mapKey(t.val(x.Key)), t.val(x.Value).C)
}

func (t *fnTrans) makeClosure(x *ssa.MakeClosure) {
	fn := x.Fn.(*ssa.Function)
	id := t.alloc(t.st)
	// remember bindings as ghost fields of the closure object: CL.<fn>.<freevar>
	for i, fv := range fn.FreeVars {
		b := t.val(x.Bindings[i])
		for j, c := range flatten(fv.Type()) {
			hn := "CL." + t.eng.shortName(fn.String()) + "." + fv.Name() + c.Suffix
			t.eng.heapSort[hn] = arrSort(c.Sort)
			h := t.heapGet(t.st, hn, arrSort(c.Sort))
			t.heapSet(t.st, hn, arrSort(c.Sort), sto(h, id, b.C[j]))
		}
	}
	hn := "CL.$fn"
	t.eng.heapSort[hn] = arrSort("Int")
	h := t.heapGet(t.st, hn, arrSort("Int"))
	t.heapSet(t.st, hn, arrSort("Int"), sto(h, id, t.eng.funcID(fn.String())))
	t.define(x, x.Type(), []string{id})
}

// instrEffects over-approximates which heaps an instruction may modify (for loop havoc).
func (t *fnTrans) instrEffects(ins ssa.Instruction, mods map[string]bool) {
	addT := func(prefix string, T types.Type, path string) {
		for _, c := range flatten(T) {
			mods[prefix+path+c.Suffix] = true
		}
	}
	var storeTo func(addr ssa.Value, T types.Type)
	storeTo = func(addr ssa.Value, T types.Type) {
		switch a := addr.(type) {
		case *ssa.FieldAddr:
			// find owner struct and field; may be a path into an element
			base := a.X
			st := under(deref(base.Type())).(*types.Struct)
			f := st.Field(a.Field)
			// determine whether base is an element path
			if root, path, et, ok := elemPath(a); ok {
				_ = root
				addT("E."+typeKey(et), T, path)
				return
			}
			addStructField(mods, deref(base.Type()), f, T)
		case *ssa.IndexAddr:
			var et types.Type
			switch bt := under(a.X.Type()).(type) {
			case *types.Slice:
				et = bt.Elem()
			case *types.Pointer:
				et = under(bt.Elem()).(*types.Array).Elem()
			}
			addT("E."+typeKey(et), T, "")
		default:
			if isStruct(T) {
				addStructAll(mods, T)
			} else {
				addT("C."+typeKey(T), T, "")
			}
		}
	}
	switch x := ins.(type) {
	case *ssa.Store:
		storeTo(x.Addr, x.Val.Type())
	case *ssa.Alloc:
		mods["$top"] = true
		T := deref(x.Type())
		if isStruct(T) {
			addStructAll(mods, T)
		} else if at, ok := under(T).(*types.Array); ok {
			addT("E."+typeKey(at.Elem()), at.Elem(), "")
		} else {
			addT("C."+typeKey(T), T, "")
		}
	case *ssa.MakeSlice:
		mods["$top"] = true
		et := under(x.Type()).(*types.Slice).Elem()
		addT("E."+typeKey(et), et, "")
	case *ssa.MakeMap, *ssa.MakeClosure:
		mods["$top"] = true
		if mm, ok := ins.(*ssa.MakeMap); ok {
			dn, _ := mapDomHeap(under(mm.Type()).(*types.Map))
			mods[dn] = true
		}
		if mc, ok := ins.(*ssa.MakeClosure); ok {
			fn := mc.Fn.(*ssa.Function)
			for _, fv := range fn.FreeVars {
				for _, c := range flatten(fv.Type()) {
					mods["CL."+t.eng.shortName(fn.String())+"."+fv.Name()+c.Suffix] = true
				}
			}
			mods["CL.$fn"] = true
		}
	case *ssa.MakeInterface:
		T := x.X.Type()
		switch under(T).(type) {
		case *types.Pointer, *types.Map, *types.Chan, *types.Signature, *types.Basic:
		default:
			mods["$top"] = true
			for _, c := range flatten(T) {
				mods["B."+typeKey(T)+c.Suffix] = true
			}
		}
	case *ssa.Convert:
		if isString(x.X.Type()) {
			mods["$top"] = true
			if sl, ok := under(x.Type()).(*types.Slice); ok {
				addT("E."+typeKey(sl.Elem()), sl.Elem(), "")
			}
		}
	case *ssa.Go:
		mods["GF.nspawn"] = true
		t.eng.heapSort["GF.nspawn"] = "(Array Int Int)"
	case *ssa.Next:
		if rg, ok := x.Iter.(*ssa.Range); ok {
			mods["$iter."+rg.Name()] = true
			t.eng.heapSort["$iter."+rg.Name()] = "(Array Int Bool)"
		}
	case *ssa.MapUpdate:
		mt := under(x.Map.Type()).(*types.Map)
		dn, _ := mapDomHeap(mt)
		mods[dn] = true
		for _, c := range flatten(mt.Elem()) {
			vn, _ := mapValHeap(mt, c.Suffix, c.Sort)
			mods[vn] = true
		}
	case *ssa.Call:
		t.callEffects(&x.Call, mods)
	case *ssa.RunDefers:
		// conservatively: effects of every defer in the function
		for _, b := range t.fn.Blocks {
			for _, i2 := range b.Instrs {
				if d, ok := i2.(*ssa.Defer); ok {
					t.callEffects(&d.Call, mods)
				}
			}
		}
	}
}

func deref(T types.Type) types.Type {
	if p, ok := under(T).(*types.Pointer); ok {
		return p.Elem()
	}
	return T
}

func addStructField(mods map[string]bool, S types.Type, f *types.Var, T types.Type) {
	if isStruct(f.Type()) {
		addStructAll(mods, f.Type())
		return
	}
	for _, c := range flatten(f.Type()) {
		mods[fieldHeap(S, f.Name(), c.Suffix)] = true
	}
}

func addStructAll(mods map[string]bool, S types.Type) {
	su := under(S).(*types.Struct)
	for i := 0; i < su.NumFields(); i++ {
		addStructField(mods, S, su.Field(i), su.Field(i).Type())
	}
}

// elemPath: is this FieldAddr a path into a slice/array element? returns elem type and path.
func elemPath(a *ssa.FieldAddr) (ssa.Value, string, types.Type, bool) {
	st := under(deref(a.X.Type())).(*types.Struct)
	name := st.Field(a.Field).Name()
	switch b := a.X.(type) {
	case *ssa.IndexAddr:
		var et types.Type
		switch bt := under(b.X.Type()).(type) {
		case *types.Slice:
			et = bt.Elem()
		case *types.Pointer:
			et = under(bt.Elem()).(*types.Array).Elem()
		}
		return b, "." + name, et, true
	case *ssa.FieldAddr:
		if r, p, et, ok := elemPath(b); ok {
			return r, p + "." + name, et, true
		}
	}
	return nil, "", nil, false
}
