package main

import (
	"crypto/sha256"
	"go/printer"
	"encoding/json"
	"flag"
	"fmt"
	"os"
	"path/filepath"
	"regexp"
	"runtime"
	"sort"
	"strings"
	"time"

	"golang.org/x/tools/go/ssa"
)

var noReplay bool

var allPkgs = []string{"./message", "./sessions", "./service", "./topics", "./auth"}

func main() {
	if len(os.Args) < 2 {
		fmt.Fprintln(os.Stderr, "usage: govc check|list|dump ...")
		os.Exit(2)
	}
	switch os.Args[1] {
	case "check":
		os.Exit(cmdCheck(os.Args[2:]))
	case "replay":
		os.Exit(cmdReplay(os.Args[2:]))
	default:
		fmt.Fprintln(os.Stderr, "unknown command")
		os.Exit(2)
	}
}

func cmdCheck(args []string) int {
	fs := flag.NewFlagSet("check", flag.ExitOnError)
	prop := fs.String("p", "", "property id")
	tier := fs.String("tier", envOr("VERIF_TIER", "quick"), "quick|thorough")
	fnre := fs.String("fn", "", "only functions matching this regexp")
	repo := fs.String("repo", "/repo", "repository root")
	keep := fs.Bool("keep", false, "keep query files")
	verbose := fs.Bool("v", false, "verbose")
	debug := fs.Bool("debug", false, "panic on translator errors")
	evdir := fs.String("evidence", "/verif/evidence", "evidence directory")
	noev := fs.Bool("noevidence", false, "do not write evidence")
	timeout := fs.Int("timeout", 0, "per-obligation timeout seconds")
	obsel := fs.String("ob", "", "only obligations whose name contains this string")
	hashes := fs.Bool("hashes", false, "print the body hash of every trusted in-repository function in the closure")
	covers := fs.Bool("covers", false, "diagnostic: report for every return whether it is reachable under the assumptions")
	noinc := fs.Bool("noinc", false, "skip the incremental pre-pass")
	noreplay := fs.Bool("noreplay", false, "do not search for and replay counterexamples")
	writeHints := fs.Bool("writehints", false, "record, for slow obligations, which solver configuration proved them (speed hints for later runs)")
	fs.Parse(args)
	start := time.Now()
	eng, err := newEngine(*repo, allPkgs)
	if err != nil {
		fmt.Fprintf(os.Stderr, "govc: %v\n", err)
		return 2
	}
	eng.debug = *debug
	loadMs := time.Since(start).Milliseconds()

	// which functions
	var targets []string
	var uncontractedVCs []*funcVC
	if *prop != "" {
		pd := eng.cs.Props[*prop]
		if pd == nil {
			fmt.Fprintf(os.Stderr, "govc: no roots declared for property %s\n", *prop)
			return 2
		}
		roots := append([]string{}, pd.Roots...)
		for _, r := range roots {
			if eng.cs.ByTarget[r] == nil {
				fmt.Fprintf(os.Stderr, "govc: property %s names root %s, which has no contract\n", *prop, r)
				return 2
			}
		}
		var uncontracted []string
		if len(pd.Callers) > 0 {
			want := map[string]bool{}
			for _, c := range pd.Callers {
				want[c] = true
			}
			var names []string
			for n := range eng.funcs {
				names = append(names, n)
			}
			sort.Strings(names)
			for _, n := range names {
				fn := eng.funcs[n]
				if !strings.Contains(n, "github.com/mdzio/go-mqtt/") {
					continue // only functions of the repository itself
				}
				if want[n] || !callsAny(fn, want) {
					continue
				}
				if ct := eng.cs.ByTarget[n]; ct == nil {
					uncontracted = append(uncontracted, n)
				} else {
					roots = append(roots, n)
				}
			}
		}
		targets = eng.closure(roots, pd.Stops...)
		for _, n := range uncontracted {
			sn := eng.shortName(n)
			fmt.Printf("UNBOUND %s: calls a function guarded by property %s but has no contract\n", sn, *prop)
			uncontractedVCs = append(uncontractedVCs, &funcVC{Name: sn, Items: []Item{{Kind: itOblig, Ob: &Oblig{Name: sn + "/binding#0", Kind: "binding", Guard: "true", Formula: "false", Desc: "calls a function that property " + *prop + " requires every caller of to be under contract, but has no contract", Fn: sn}}}})
		}
	} else {
		for _, n := range eng.cs.Order {
			c := eng.cs.ByTarget[n]
			if c.Kind == "func" || c.Kind == "closure" {
				targets = append(targets, n)
			}
		}
	}
	var re *regexp.Regexp
	if *fnre != "" {
		re = regexp.MustCompile(*fnre)
	}
	var fvs []*funcVC
	fvs = append(fvs, uncontractedVCs...)
	nerr := 0
	nunbound := 0
	var under []string
	for _, name := range targets {
		ct := eng.cs.ByTarget[name]
		if ct != nil && ct.Trusted && (ct.Kind == "func" || ct.Kind == "closure") {
			// a trusted contract on a function of this repository is pinned to the body it was written for
			if fn := eng.funcs[name]; fn != nil {
				h := bodyHash(eng, fn)
				want := ct.Flags["bodyhash"]
				sn := eng.shortName(name)
				if *hashes {
					fmt.Printf("BODYHASH %s %s\n", sn, h)
				}
				if want != "" && h != "" && want != h {
					fmt.Printf("UNBOUND %s: trusted contract was written for a different function body (bodyhash %s, now %s)\n", sn, want, h)
					fvs = append(fvs, &funcVC{Name: sn, Items: []Item{{Kind: itOblig, Ob: &Oblig{Name: sn + "/binding#0", Kind: "binding", Guard: "true", Formula: "false", Desc: "the body of a function under a trusted (unverified) contract changed: the trust no longer applies", Fn: sn}}}})
					under = append(under, sn)
				}
			}
		}
		if ct == nil || ct.Trusted {
			continue
		}
		if re != nil && !re.MatchString(name) {
			continue
		}
		fn := eng.funcs[name]
		if fn == nil {
			fmt.Printf("UNBOUND contract=%s (no such function in the current tree)\n", name)
			sn := eng.shortName(name)
			fvs = append(fvs, &funcVC{Name: sn, Items: []Item{{Kind: itOblig, Ob: &Oblig{Name: sn + "/binding#0", Kind: "binding", Guard: "true", Formula: "false", Desc: "the function under contract no longer exists", Fn: sn}}}})
			under = append(under, sn)
			continue
		}
		var t *fnTrans
		if ct.Flags["arith"] == "bv64" {
			t = translateBV(eng, fn, ct)
		} else {
			t = translateFunc(eng, fn, ct)
		}
		fv := &funcVC{Name: eng.shortName(name), Items: t.items, Errs: t.errs, RetReach: t.retBlocks, RetPos: t.retPos, tr: t}
		if ct.Flags["arith"] == "bv64" {
			fv.tr, fv.bvFn = nil, name
		}
		if len(t.errs) > 0 {
			// The contract no longer binds to the code (new loop without invariant, renamed loop variable,
			// call without contract, construct outside the subset): the obligations of this function that
			// were discharged on the verified tree can no longer be established. Reported as one failed
			// obligation (no counterexample exists for it).
			for _, e := range t.errs {
				fmt.Printf("UNBOUND %s: %s\n", fv.Name, e)
			}
			desc := "contract does not bind to the current code: " + strings.Join(t.errs, "; ")
			if len(desc) > 600 {
				desc = desc[:600] + "..."
			}
			fv.Items = []Item{{Kind: itOblig, Ob: &Oblig{Name: fv.Name + "/binding#0", Kind: "binding", Guard: "true", Formula: "false", Desc: desc, Fn: fv.Name}}}
			fv.RetReach = nil
			fv.tr = nil
			nunbound++
		}
		fvs = append(fvs, fv)
		under = append(under, fv.Name)
	}
	if nerr > 0 {
		fmt.Printf("govc: %d contracts name functions that do not exist; undecided\n", nerr)
		return 2
	}
	dir, _ := os.MkdirTemp("", "govc")
	defer func() {
		if !*keep {
			os.RemoveAll(dir)
		} else {
			fmt.Println("queries kept in", dir)
		}
	}()
	opt := solveOpts{timeout: 45 * time.Second, workers: (runtime.NumCPU() + 1) / 2, dir: dir, solvers: []string{"z3new", "z3", "cvc5"}, keep: *keep}
	if *tier == "thorough" {
		opt.timeout = 60 * time.Second
		opt.allAgree = true
	}
	if *timeout > 0 {
		opt.timeout = time.Duration(*timeout) * time.Second
	}
	opt.only = *obsel
	opt.noInc = *noinc
	noReplay = *noreplay
	if !noReplay && *prop != "" {
		old, _ := filepath.Glob("/verif/replays/" + *prop + "_*")
		for _, f := range old {
			os.Remove(f)
		}
	}
	if *covers {
		coverEach(eng, fvs, opt)
	}
	vac, nchecked := coverAll(eng, fvs, opt)
	for _, v := range vac {
		fmt.Printf("VACUOUS %s: its hypotheses (contracts of callees, invariants, preconditions) are contradictory on every path to a return\n", v)
	}
	fmt.Printf("govc: vacuity covers: %d functions checked, %d vacuous\n", nchecked, len(vac))
	if len(vac) > 0 {
		return 2
	}
	results := solveAll(eng, fvs, opt)
	if *writeHints {
		h := map[string]string{}
		if data, err := os.ReadFile("/verif/solver_hints.json"); err == nil {
			json.Unmarshal(data, &h)
		}
		for _, r := range results {
			sv := strings.TrimSuffix(r.Solver, "(slow)")
			if r.Status == "unsat" && r.Ms > 2500 && sv != "z3new-incremental" && sv != "z3new" {
				h[r.Ob.Name] = sv
			}
		}
		data, _ := json.MarshalIndent(h, "", " ")
		os.WriteFile("/verif/solver_hints.json", data, 0o644)
	}
	failed := report(eng, *prop, *tier, fvs, results, under, start, loadMs, *verbose, *evdir, *noev, dir)
	if failed > 0 {
		return 1
	}
	return 0
}

func envOr(k, d string) string {
	if v := os.Getenv(k); v != "" {
		return v
	}
	return d
}

// closure: roots plus every contracted, non-trusted callee reachable from them.
// callsAny: does fn (or a closure defined in it) statically call one of the named functions?
func callsAny(fn *ssa.Function, want map[string]bool) bool {
	for _, b := range fn.Blocks {
		for _, ins := range b.Instrs {
			var cc *ssa.CallCommon
			switch x := ins.(type) {
			case *ssa.Call:
				cc = &x.Call
			case *ssa.Defer:
				cc = &x.Call
			case *ssa.Go:
				cc = &x.Call
			}
			if cc != nil {
				if f := cc.StaticCallee(); f != nil && want[f.String()] {
					return true
				}
				if cc.IsInvoke() && want[ifaceMethodName(cc.Value.Type(), cc.Method)] {
					// a guarded interface method (e.g. net.Conn.SetReadDeadline)
					return true
				}
			}
		}
	}
	for _, af := range fn.AnonFuncs {
		if callsAny(af, want) {
			return true
		}
	}
	return false
}

// bodyHash: a hash of the printed source of fn (formatting-insensitive; comments excluded).
func bodyHash(eng *Engine, fn *ssa.Function) string {
	syn := fn.Syntax()
	if syn == nil {
		return ""
	}
	var sb strings.Builder
	cfg := printer.Config{Mode: printer.RawFormat}
	if err := cfg.Fprint(&sb, eng.fset, syn); err != nil {
		return ""
	}
	sum := sha256.Sum256([]byte(strings.Join(strings.Fields(sb.String()), " ")))
	return fmt.Sprintf("%x", sum[:6])
}

func (e *Engine) closure(roots []string, stops ...string) []string {
	seen := map[string]bool{}
	// stops: functions whose contract is used but whose body is verified under the properties that own them
	// (modular verification: a caller is checked against the callee's contract, not its body)
	for _, st := range stops {
		seen[st] = true
	}
	var out []string
	var visit func(n string)
	visit = func(n string) {
		if seen[n] {
			return
		}
		seen[n] = true
		ct := e.cs.ByTarget[n]
		if ct == nil || ct.Kind == "extern" || ct.Kind == "iface" {
			return
		}
		out = append(out, n)
		fn := e.funcs[n]
		if fn == nil || ct.Trusted {
			return
		}
		for _, b := range fn.Blocks {
			for _, ins := range b.Instrs {
				var cc *ssa.CallCommon
				switch x := ins.(type) {
				case *ssa.Call:
					cc = &x.Call
				case *ssa.Defer:
					cc = &x.Call
				case *ssa.MakeClosure:
					visit(x.Fn.(*ssa.Function).String())
					continue
				}
				if cc == nil {
					continue
				}
				if f := cc.StaticCallee(); f != nil {
					visit(f.String())
				}
				if cc.IsInvoke() {
					// every implementation under contract must satisfy the interface contract
					iname := ifaceMethodName(cc.Value.Type(), cc.Method)
					if ict := e.cs.ByTarget[iname]; ict != nil {
						for _, impl := range strings.Split(ict.Flags["impls"], ",") {
							impl = strings.TrimSpace(impl)
							if impl == "" {
								continue
							}
							q := qualify(ict.Pkg, impl)
							if wc := e.cs.ByTarget[q]; wc != nil && wc.Flags["like"] != "" {
								// a refinement wrapper: it is verified (against the implementation's contract), but the
								// implementation's body belongs to the closure of the properties that own it (C03/C04)
								if !seen[q] {
									seen[q] = true
									out = append(out, q)
								}
								continue
							}
							visit(q)
						}
					}
				}
			}
		}
	}
	for _, r := range roots {
		visit(r)
	}
	sort.Strings(out)
	return out
}

type knownFinding struct {
	ID         string `json:"id"`
	Property   string `json:"property"`
	Obligation string `json:"obligation"`
	What       string `json:"what"`
	Status     string `json:"status"` // open | fixed
	Commit     string `json:"commit,omitempty"`
}

func loadKnown() []knownFinding {
	var kf struct {
		Findings []knownFinding `json:"findings"`
	}
	data, err := os.ReadFile("/verif/known_findings.json")
	if err != nil {
		return nil
	}
	json.Unmarshal(data, &kf)
	return kf.Findings
}

func report(eng *Engine, prop, tier string, fvs []*funcVC, results []*Result, under []string, start time.Time, loadMs int64, verbose bool, evdir string, noev bool, qdir string) int {
	known := loadKnown()
	isKnown := func(ob *Oblig) *knownFinding {
		for i := range known {
			k := &known[i]
			if k.Status == "open" && k.Obligation == ob.Name {
				// a listed finding is reported (under the property it violates) by every check whose closure contains it

				return k
			}
		}
		return nil
	}
	bySolver := map[string]int{}
	var totalMs, maxMs int64
	discharged, failed, skipped := 0, 0, 0
	var samples []map[string]interface{}
	var viol []string
	knownSeen := map[string]bool{}
	for _, r := range results {
		if r.Ms > maxMs {
			maxMs = r.Ms
		}
		totalMs += r.Ms
		if r.Status == "unsat" {
			if kf := isKnown(r.Ob); kf != nil {
				fmt.Printf("NOTE: known finding %s obligation %s now discharges (fixed?)\n", kf.ID, r.Ob.Name)
			}
			discharged++
			bySolver[r.Solver]++
			if len(samples) < 12 || verbose {
				samples = append(samples, map[string]interface{}{"obligation": r.Ob.Name, "kind": r.Ob.Kind, "solver": r.Solver, "ms": r.Ms, "at": r.Ob.Pos})
			}
			if verbose {
				fmt.Printf("ok    %-70s %s %dms\n", r.Ob.Name, r.Solver, r.Ms)
			}
			continue
		}
		if r.Status == "not-attempted" {
			skipped++
			continue
		}
		if kf := isKnown(r.Ob); kf != nil {
			if !knownSeen[kf.ID] {
				fmt.Printf("KNOWN-FINDING: property=%s %s: %s (obligation %s)\n", kf.Property, kf.ID, kf.What, r.Ob.Name)
				knownSeen[kf.ID] = true
			}
			continue
		}
		failed++
		p := prop
		if p == "" && len(r.Ob.Tags) > 0 {
			p = r.Ob.Tags[0]
		}
		rp := "(replay disabled)"
		if !noReplay {
			rp = writeReplay(eng, p, r, qdir)
		}
		suffix := ""
		if !r.reproduced {
			suffix = " no-failing-input-found"
		}
		fmt.Printf("FAILED %s [%s] %s at %s: %s\n", r.Ob.Name, r.Status, r.Ob.Kind, r.Ob.Pos, r.Ob.Desc)
		viol = append(viol, fmt.Sprintf("VIOLATION property=%s replay=%s obligation=%s%s", p, rp, r.Ob.Name, suffix))
	}
	for _, v := range viol {
		fmt.Println(v)
	}
	if skipped > 0 {
		fmt.Printf("govc: %d further obligations were given one short attempt only and stay undecided (the verdict was already settled by the failures above)\n", skipped)
	}
	nobl := len(results)
	wall := time.Since(start).Seconds()
	sort.Slice(results, func(i, j int) bool { return results[i].Ms > results[j].Ms })
	for i := 0; i < 3 && i < len(results); i++ {
		if results[i].Ms > 1500 {
			fmt.Printf("SLOW %dms %s (%s)\n", results[i].Ms, results[i].Ob.Name, results[i].Solver)
		}
	}
	fmt.Printf("govc: by-solver %v\n", bySolver)
	fmt.Printf("govc: property=%s tier=%s functions=%d obligations=%d discharged=%d failed=%d known=%d load=%dms solver_total=%dms max=%dms wall=%.1fs\n",
		prop, tier, len(fvs), nobl, discharged, failed, len(knownSeen), loadMs, totalMs, maxMs, wall)
	if nobl == 0 {
		fmt.Println("govc: VACUOUS: no obligations generated")
		return 1
	}
	if prop != "" && !noev {
		writeEvidence(eng, prop, tier, evdir, under, nobl, discharged, failed, len(knownSeen), bySolver, totalMs, maxMs, wall, samples)
	}
	return failed
}

func writeEvidence(eng *Engine, prop, tier, evdir string, under []string, nobl, discharged, failed, nknown int, bySolver map[string]int, totalMs, maxMs int64, wall float64, samples []map[string]interface{}) {
	os.MkdirAll(evdir, 0o755)
	seed := 0
	fmt.Sscan(os.Getenv("VERIF_SEED"), &seed)
	ev := map[string]interface{}{
		"property_id": prop, "tier": tier, "seed": seed, "level": "proof", "wall_s": wall, "violations": failed,
		"coverage": map[string]interface{}{
			"obligations": nobl - nknown, "discharged": discharged,
			"checker_cmd":  fmt.Sprintf("/verif/bin/govc check -p %s -tier %s", prop, tier),
			"trusted_base": trustedBase(eng),
			"functions_under_contract": under,
			"discharged_by_backend":    bySolver,
			"solver_ms_total":          totalMs, "solver_ms_max": maxMs,
			"known_findings_seen": nknown,
			"samples":             samples,
		},
		"assumptions": trustedBase(eng),
	}
	data, _ := json.MarshalIndent(ev, "", " ")
	os.WriteFile(filepath.Join(evdir, prop+".json"), data, 0o644)
}

func trustedBase(eng *Engine) []string {
	out := []string{
		"go/packages + go/types + go/ssa (x/tools v0.29.0) represent /repo's source faithfully",
		"govc's VC generator (this repository, /verif/govc) and the SMT solvers z3 5.1.0 / z3 4.8.12 / cvc5 1.0.3",
		"integers are mathematical with Go's wrap-around modelled exactly on conversions and unsigned ops; signed +,-,* carry overflow obligations",
		"every slice satisfies off+cap <= 2^56 (address-space bound)",
		"no goroutine other than the one executing the function writes the heap locations it reads, except where a rely clause says so",
	}
	var ext []string
	for _, n := range eng.cs.Order {
		c := eng.cs.ByTarget[n]
		if c.Trusted {
			ext = append(ext, n)
		}
	}
	sort.Strings(ext)
	for _, n := range ext {
		if c := eng.cs.ByTarget[n]; c.Kind == "iface" && c.Flags["refined"] != "" {
			var ws []string
			for _, w := range strings.Fields(c.Flags["refined"]) {
				ws = append(ws, eng.shortName(w))
			}
			pre := ""
			for _, w := range strings.Fields(c.Flags["refined"]) {
				if wc := eng.cs.ByTarget[w]; wc != nil && wc.Flags["assumepre"] == "" && wc.Flags["ownrequires"] != "" {
					pre += "; ASSUMED at dynamic calls (precondition of wrapper " + eng.shortName(w) + ", e.g. the implementation's object invariant): " + wc.Flags["ownrequires"]
				}
			}
			for _, w := range strings.Fields(c.Flags["refined"]) {
				if wc := eng.cs.ByTarget[w]; wc != nil && wc.Flags["assumepre"] != "" {
					pre = "; ASSUMED at dynamic calls: the receiver's dynamic type is one of these and the preconditions of that implementation's own contract hold (well-formed message object, stated size bounds, destination buffer separate from the message's own buffers)"
				}
			}
			out = append(out, "interface contract "+n+": assumed at dynamic calls; its postconditions and frame are proved to follow from the contract of each listed implementation (refinement wrappers, verified in every closure that uses the interface: "+strings.Join(ws, ", ")+")"+pre+"; implementations outside this list are not covered")
			continue
		}
		out = append(out, "trusted contract (assumed, not proved): "+n)
	}
	var more []string
	for _, n := range eng.cs.Order {
		c := eng.cs.ByTarget[n]
		for callee, cls := range c.AtCallAssume {
			for _, cl := range cls {
				more = append(more, "assumed in "+eng.shortName(n)+" after calls of "+eng.shortName(callee)+": "+cl.Text)
			}
		}
		for _, cl := range c.Ensures {
			if strings.HasPrefix(cl.Label, "assumed-") && c.Kind == "iface" && c.Flags["refined"] != "" {
				more = append(more, "assumed part of interface contract "+n+" (not proved for the implementations): "+cl.Text)
			}
			if strings.HasPrefix(cl.Label, "assumed-") && !c.Trusted && (c.Kind == "func" || c.Kind == "closure") {
				more = append(more, "assumed postcondition (not checked against the body) of "+eng.shortName(n)+": "+cl.Text)
			}
			if strings.HasPrefix(cl.Label, "ghostdef") && !c.Trusted && c.Flags["like"] == "" {
				more = append(more, "ghost definition (assumed at call sites, nothing to check in the body) in "+eng.shortName(n)+": "+cl.Text)
			}
		}
	}
	for hn, r := range eng.cs.FieldRange {
		more = append(more, "assumed value range of every "+hn+": ["+r[0]+", "+r[1]+"]")
	}
	sort.Strings(more)
	out = append(out, more...)
	return out
}
