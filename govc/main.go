package main

import (
	"fmt"
	"golang.org/x/tools/go/packages"
	"golang.org/x/tools/go/ssa"
	"golang.org/x/tools/go/ssa/ssautil"
)

func main() {
	cfg := &packages.Config{Mode: packages.LoadAllSyntax, Dir: "/repo", BuildFlags: []string{"-tags=verif"}}
	pkgs, err := packages.Load(cfg, "./message", "./sessions", "./service", "./topics")
	if err != nil { panic(err) }
	prog, spkgs := ssautil.AllPackages(pkgs, ssa.BuilderMode(0))
	prog.Build()
	for _, p := range spkgs { fmt.Println(p.Pkg.Path(), len(p.Members)) }
}
