package main

// Evaluation of contract expressions (Go syntax + spec builtins) to SMT.

import (
	"fmt"
	"go/ast"
	"go/constant"
	"go/token"
	"go/types"
	"math/big"
	"strconv"
	"strings"
)

type specEnv struct {
	t    *fnTrans
	vars map[string]Val
	lvs  map[string]*LVal
	cur  *State
	old  *State
	pkg  *types.Package
	errs []string
	nb   int
	depth int
	oldVars map[string]Val // values of names in the pre-state (nil: same as vars)
	acc     *[]access      // element reads recorded while evaluating a quantifier body
	qvars   []string       // bound variables of enclosing quantifiers
	callee  bool           // evaluating a callee's contract at a call site (its internal iterations are not visible)
}

// finiteQ maps a generated quantified formula to a finite conjunction of instances;
// used only for model search (replay), never for proofs.
var finiteQ = map[string]string{}

const finiteN = 12

// regFinite registers instances body[v := base+c], c < finiteN, for quantified formula qf.
func regFinite(qf, v, base, body string) {
	var inst []string
	for c := 0; c < finiteN; c++ {
		inst = append(inst, strings.ReplaceAll(body, v, add(base, fmt.Sprint(c))))
	}
	finiteQ[qf] = and(inst...)
}

// access: one element read s[idx] inside a quantifier body.
type access struct {
	heapSel string // (select H arr)
	off     string
	idx     string
	full    string // the index term as emitted
}

// reindex rewrites  forall K. rng(K) => body(K)  so that the bound variable is the
// absolute index of an array read in the body (pattern without arithmetic). One copy
// per distinct array read that is indexed by K (+ constant offset); the copies are equivalent.
func reindex(kind, K, lo, hi, body string, accs []access, nfr *int) string {
	type cand struct {
		heapSels    []string
		shift, full string
	}
	var cands []*cand
	byFull := map[string]*cand{}
	seen := map[string]bool{}
	for _, a := range accs {
		if strings.Contains(a.heapSel, K) || strings.Contains(a.off, K) {
			continue
		}
		var shift string
		switch {
		case a.idx == K:
			shift = a.off
		case strings.HasPrefix(a.idx, "(+ "+K+" ") && !strings.Contains(a.idx[len("(+ "+K+" "):], K):
			x := strings.TrimSuffix(a.idx[len("(+ "+K+" "):], ")")
			shift = add(a.off, x)
		case strings.HasPrefix(a.idx, "(+ ") && strings.HasSuffix(a.idx, " "+K+")") && strings.Count(a.idx, K) == 1:
			x := a.idx[3 : len(a.idx)-len(" "+K+")")]
			shift = add(a.off, x)
		case strings.HasPrefix(a.idx, "(- "+K+" ") && !strings.Contains(a.idx[len("(- "+K+" "):], K):
			x := strings.TrimSuffix(a.idx[len("(- "+K+" "):], ")")
			shift = sub(a.off, x)
		default:
			continue
		}
		key := a.heapSel + "#" + a.full
		if seen[key] || !strings.Contains(body, "(select "+a.heapSel+" "+a.full+")") {
			continue
		}
		seen[key] = true
		// element reads of one struct element share the index term: one copy, alternative patterns
		if c, ok := byFull[a.full+"#"+shift]; ok {
			if len(c.heapSels) < 12 {
				c.heapSels = append(c.heapSels, a.heapSel)
			}
			continue
		}
		if len(cands) == 3 {
			continue
		}
		c := &cand{[]string{a.heapSel}, shift, a.full}
		byFull[a.full+"#"+shift] = c
		cands = append(cands, c)
	}
	mk := func(J, rng, b string, pats []string) string {
		if kind == "forall" {
			if len(pats) > 0 {
				ps := ""
				for _, p := range pats {
					ps += " :pattern (" + p + ")"
				}
				return fmt.Sprintf("(forall ((%s Int)) (! %s%s))", J, imp(rng, b), ps)
			}
			return fmt.Sprintf("(forall ((%s Int)) %s)", J, imp(rng, b))
		}
		return fmt.Sprintf("(exists ((%s Int)) %s)", J, and(rng, b))
	}
	kform := imp(and(le(lo, K), lt(K, hi)), body)
	if len(cands) == 0 || kind != "forall" {
		r := mk(K, and(le(lo, K), lt(K, hi)), body, nil)
		if kind == "forall" {
			regFinite(r, K, lo, kform)
		}
		return r
	}
	var copies []string
	for _, c := range cands {
		*nfr++
		J := fmt.Sprintf("|J!q%d|", *nfr)
		b := strings.ReplaceAll(body, c.full, J)
		kexpr := sub(J, c.shift)
		b = strings.ReplaceAll(b, K, kexpr)
		rng := and(le(add(lo, c.shift), J), lt(J, add(hi, c.shift)))
		var pats []string
		for _, hs := range c.heapSels {
			pats = append(pats, "(select "+hs+" "+J+")")
		}
		cp := mk(J, rng, b, pats)
		if len(copies) == 0 {
			regFinite(cp, K, lo, kform)
		} else {
			finiteQ[cp] = "true"
		}
		copies = append(copies, cp)
	}
	return and(copies...)
}

func (t *fnTrans) specEnv(cur, old *State) *specEnv {
	e := &specEnv{t: t, vars: map[string]Val{}, lvs: map[string]*LVal{}, cur: cur, old: old, pkg: t.fn.Pkg.Pkg}
	for k, v := range t.params {
		e.vars[k] = v
		e.vars[k+"_0"] = v // entry value of a parameter that the code reassigns
	}
	for k, v := range t.freeVarVals {
		e.vars[k] = v
	}
	return e
}

func (e *specEnv) errorf(format string, a ...interface{}) {
	e.errs = append(e.errs, fmt.Sprintf(format, a...))
}

var untypedInt = types.Typ[types.UntypedInt]

// ghostArrT marks ghost arrays (Int -> Int) in spec expressions.
var ghostArrT = types.NewNamed(types.NewTypeName(0, nil, "ghostarray", nil), types.NewChan(types.SendRecv, types.Typ[types.Int]), nil)
var tBool = types.Typ[types.Bool]
var tInt = types.Typ[types.Int]

func (e *specEnv) evalBool(x ast.Expr) string {
	v := e.eval(x)
	if len(v.C) != 1 || !isBool(v.T) {
		e.errorf("expected boolean expression, got %v", v.T)
		return "true"
	}
	return v.C[0]
}

func bad(T types.Type) Val {
	if T == nil {
		T = tInt
	}
	return Val{T, zeroComps(T)}
}

func (e *specEnv) eval(x ast.Expr) Val {
	switch n := x.(type) {
	case *ast.ParenExpr:
		return e.eval(n.X)
	case *ast.BasicLit:
		switch n.Kind {
		case token.INT:
			v, ok := new(big.Int).SetString(n.Value, 0)
			if !ok {
				e.errorf("bad int literal %s", n.Value)
				return bad(nil)
			}
			return Val{untypedInt, []string{num(v)}}
		case token.CHAR:
			r, _, _, err := strconv.UnquoteChar(n.Value[1:len(n.Value)-1], '\'')
			if err != nil {
				e.errorf("bad char literal")
			}
			return Val{untypedInt, []string{fmt.Sprint(int(r))}}
		case token.STRING:
			s, _ := strconv.Unquote(n.Value)
			return Val{types.Typ[types.String], []string{e.t.eng.strConst(s)}}
		}
	case *ast.Ident:
		return e.ident(n)
	case *ast.SelectorExpr:
		return e.selector(n)
	case *ast.IndexExpr:
		return e.index(n)
	case *ast.SliceExpr:
		return e.sliceExpr(n)
	case *ast.StarExpr:
		// *p : p bound to an l-value, or a pointer value to a cell
		if id, ok := n.X.(*ast.Ident); ok {
			if lv, ok := e.lvs[id.Name]; ok {
				return e.t.load(e.cur, lv)
			}
		}
		v := e.eval(n.X)
		if pt, ok := under(v.T).(*types.Pointer); ok {
			if isStruct(pt.Elem()) {
				return Val{pt.Elem(), e.t.loadObj(e.cur, v.C[0], pt.Elem())}
			}
			return e.t.load(e.cur, &LVal{Kind: lvCell, Ref: v.C[0], T: pt.Elem()})
		}
		e.errorf("cannot dereference %v", v.T)
		return bad(nil)
	case *ast.UnaryExpr:
		v := e.eval(n.X)
		switch n.Op {
		case token.NOT:
			return Val{tBool, []string{not(v.C[0])}}
		case token.SUB:
			return Val{v.T, []string{"(- " + v.C[0] + ")"}}
		case token.ADD:
			return v
		}
		e.errorf("unsupported unary %s", n.Op)
		return bad(v.T)
	case *ast.BinaryExpr:
		return e.binary(n)
	case *ast.CallExpr:
		return e.call(n)
	}
	e.errorf("unsupported spec expression %T", x)
	return bad(nil)
}

func (e *specEnv) ident(n *ast.Ident) Val {
	switch n.Name {
	case "true":
		return Val{tBool, []string{"true"}}
	case "false":
		return Val{tBool, []string{"false"}}
	case "nil":
		return Val{types.Typ[types.UntypedNil], []string{"0"}}
	}
	if v, ok := e.vars[n.Name]; ok {
		return v
	}
	if strings.HasPrefix(n.Name, "gh_") {
		e.t.eng.heapSort["G."+n.Name] = "(Array Int Int)"
		return Val{ghostArrT, []string{e.t.heapGet(e.cur, "G."+n.Name, "(Array Int Int)")}}
	}
	if lv, ok := e.lvs[n.Name]; ok {
		// pointer parameter bound to an l-value: its "value" is the address
		switch lv.Kind {
		case lvObj, lvCell, lvArr:
			return Val{types.NewPointer(lv.T), []string{lv.Ref}}
		}
		e.errorf("cannot use reference parameter %s as a value", n.Name)
		return bad(nil)
	}
	obj := e.pkg.Scope().Lookup(n.Name)
	if obj == nil {
		obj = types.Universe.Lookup(n.Name)
	}
	switch o := obj.(type) {
	case *types.Const:
		return e.constObj(o)
	case *types.Var:
		// package-level variable
		ref := e.t.eng.globalRefObj(o)
		if isStruct(o.Type()) {
			return Val{o.Type(), e.t.loadObj(e.cur, ref, o.Type())}
		}
		return e.t.load(e.cur, &LVal{Kind: lvCell, Ref: ref, T: o.Type()})
	}
	e.errorf("unknown identifier %s", n.Name)
	return bad(nil)
}

func (e *specEnv) constObj(o *types.Const) Val {
	switch o.Val().Kind() {
	case constant.Int:
		s := o.Val().ExactString()
		if strings.HasPrefix(s, "-") {
			s = "(- " + s[1:] + ")"
		}
		return Val{o.Type(), []string{s}}
	case constant.Bool:
		if constant.BoolVal(o.Val()) {
			return Val{tBool, []string{"true"}}
		}
		return Val{tBool, []string{"false"}}
	case constant.String:
		return Val{o.Type(), []string{e.t.eng.strConst(constant.StringVal(o.Val()))}}
	}
	e.errorf("unsupported constant %s", o.Name())
	return bad(o.Type())
}

func (e *specEnv) findPkg(name string) *types.Package {
	if e.pkg.Name() == name {
		return e.pkg
	}
	for _, p := range e.pkg.Imports() {
		if p.Name() == name {
			return p
		}
	}
	for _, p := range e.t.eng.typePkgs {
		if p.Name() == name {
			return p
		}
	}
	return nil
}

// fieldOf reads field `name` (possibly promoted) of the object/struct value v.
func (e *specEnv) fieldOf(v Val, name string) Val {
	T := v.T
	isPtr := false
	if pt, ok := under(T).(*types.Pointer); ok {
		T = pt.Elem()
		isPtr = true
	}
	obj, path, _ := types.LookupFieldOrMethod(T, true, e.pkg, name)
	if obj == nil {
		// try from the defining package of the type (unexported fields of other packages)
		if nt, ok := T.(*types.Named); ok && nt.Obj().Pkg() != nil {
			obj, path, _ = types.LookupFieldOrMethod(T, true, nt.Obj().Pkg(), name)
		}
	}
	fv, ok := obj.(*types.Var)
	if !ok {
		e.errorf("no field %s in %v", name, T)
		return bad(nil)
	}
	if isPtr {
		ref := v.C[0]
		S := T
		for k, i := range path {
			su := under(S).(*types.Struct)
			f := su.Field(i)
			last := k == len(path)-1
			if last {
				if isStruct(f.Type()) {
					r := ref
					if i != 0 {
						r = subref(ref, S, i)
					}
					return Val{f.Type(), e.t.loadObj(e.cur, r, f.Type())}
				}
				return e.t.load(e.cur, &LVal{Kind: lvField, Ref: ref, S: S, Field: f.Name(), T: f.Type()})
			}
			if pt, ok := under(f.Type()).(*types.Pointer); ok {
				// embedded pointer
				pv := e.t.load(e.cur, &LVal{Kind: lvField, Ref: ref, S: S, Field: f.Name(), T: f.Type()})
				ref = pv.C[0]
				S = pt.Elem()
				continue
			}
			if i != 0 {
				ref = subref(ref, S, i)
			}
			S = f.Type()
		}
	}
	// struct value: component slicing
	comps := v.C
	S := T
	for _, i := range path {
		su := under(S).(*types.Struct)
		k := 0
		for j := 0; j < i; j++ {
			k += ncomps(su.Field(j).Type())
		}
		n := ncomps(su.Field(i).Type())
		comps = comps[k : k+n]
		S = su.Field(i).Type()
	}
	return Val{fv.Type(), comps}
}

func (e *specEnv) selector(n *ast.SelectorExpr) Val {
	if id, ok := n.X.(*ast.Ident); ok {
		if _, isVar := e.vars[id.Name]; !isVar {
			if _, isLv := e.lvs[id.Name]; !isLv {
				if p := e.findPkg(id.Name); p != nil && e.pkg.Scope().Lookup(id.Name) == nil {
					obj := p.Scope().Lookup(n.Sel.Name)
					switch o := obj.(type) {
					case *types.Const:
						return e.constObj(o)
					case *types.Var:
						ref := e.t.eng.globalRefObj(o)
						return e.t.load(e.cur, &LVal{Kind: lvCell, Ref: ref, T: o.Type()})
					}
					e.errorf("unknown %s.%s", id.Name, n.Sel.Name)
					return bad(nil)
				}
			}
		}
		if lv, ok := e.lvs[id.Name]; ok && lv.Kind == lvObj {
			return e.fieldOf(Val{types.NewPointer(lv.T), []string{lv.Ref}}, n.Sel.Name)
		}
	}
	v := e.eval(n.X)
	return e.fieldOf(v, n.Sel.Name)
}

func (e *specEnv) elemRead(s Val, idx string) Val {
	sl := under(s.T).(*types.Slice)
	var out []string
	for _, c := range flatten(sl.Elem()) {
		h := e.t.heapGet(e.cur, elemHeap(sl.Elem(), c.Suffix), arr2Sort(c.Sort))
		out = append(out, sel(sel(h, s.C[0]), add(s.C[1], idx)))
		if e.acc != nil {
			*e.acc = append(*e.acc, access{sel(h, s.C[0]), s.C[1], idx, add(s.C[1], idx)})
		}
	}
	return Val{sl.Elem(), out}
}

func (e *specEnv) index(n *ast.IndexExpr) Val {
	b := e.eval(n.X)
	i := e.eval(n.Index)
	if b.T == ghostArrT {
		if e.acc != nil {
			*e.acc = append(*e.acc, access{b.C[0], "0", i.C[0], i.C[0]})
		}
		return Val{tInt, []string{sel(b.C[0], i.C[0])}}
	}
	switch bt := under(b.T).(type) {
	case *types.Slice:
		return e.elemRead(b, i.C[0])
	case *types.Map:
		_, val := e.t.mapRead(e.cur, bt, b.C[0], e.t.mapKey(i))
		if e.acc != nil {
			dn, ds := mapDomHeap(bt)
			k := e.t.mapKey(i)
			*e.acc = append(*e.acc, access{sel(e.t.heapGet(e.cur, dn, ds), b.C[0]), "0", k, k})
		}
		return Val{bt.Elem(), val}
	case *types.Basic:
		if isString(b.T) {
			return Val{types.Typ[types.Byte], []string{"(strbyte " + b.C[0] + " " + i.C[0] + ")"}}
		}
	}
	e.errorf("cannot index %v", b.T)
	return bad(nil)
}

func (e *specEnv) sliceExpr(n *ast.SliceExpr) Val {
	b := e.eval(n.X)
	if _, ok := under(b.T).(*types.Slice); !ok {
		e.errorf("cannot slice %v", b.T)
		return bad(nil)
	}
	lo, hi := "0", b.C[2]
	if n.Low != nil {
		lo = e.eval(n.Low).C[0]
	}
	if n.High != nil {
		hi = e.eval(n.High).C[0]
	}
	return Val{b.T, []string{b.C[0], add(b.C[1], lo), sub(hi, lo), sub(b.C[3], lo)}}
}

func isUntyped(T types.Type) bool {
	b, ok := T.(*types.Basic)
	return ok && b.Info()&types.IsUntyped != 0
}

func (e *specEnv) binary(n *ast.BinaryExpr) Val {
	switch n.Op {
	case token.LAND:
		return Val{tBool, []string{and(e.evalBool(n.X), e.evalBool(n.Y))}}
	case token.LOR:
		return Val{tBool, []string{or(e.evalBool(n.X), e.evalBool(n.Y))}}
	}
	a, b := e.eval(n.X), e.eval(n.Y)
	T := a.T
	if isUntyped(T) {
		T = b.T
	}
	switch n.Op {
	case token.EQL, token.NEQ:
		var f string
		switch {
		case isUntyped(a.T) && under(a.T).(*types.Basic).Kind() == types.UntypedNil:
			f = e.isNil(b)
		case isUntyped(b.T) && under(b.T).(*types.Basic).Kind() == types.UntypedNil:
			f = e.isNil(a)
		case isString(T):
			f = e.t.eng.strEq(a.C[0], b.C[0])
		default:
			if len(a.C) != len(b.C) {
				e.errorf("comparison of mismatched values %v and %v", a.T, b.T)
				return Val{tBool, []string{"true"}}
			}
			f = eqComps(a.C, b.C)
		}
		if n.Op == token.NEQ {
			f = not(f)
		}
		return Val{tBool, []string{f}}
	case token.LSS, token.LEQ, token.GTR, token.GEQ:
		o := map[token.Token]string{token.LSS: "<", token.LEQ: "<=", token.GTR: ">", token.GEQ: ">="}[n.Op]
		return Val{tBool, []string{"(" + o + " " + a.C[0] + " " + b.C[0] + ")"}}
	case token.ADD:
		return Val{T, []string{add(a.C[0], b.C[0])}}
	case token.SUB:
		return Val{T, []string{sub(a.C[0], b.C[0])}}
	case token.MUL:
		return Val{T, []string{"(* " + a.C[0] + " " + b.C[0] + ")"}}
	case token.QUO, token.REM, token.SHL, token.SHR, token.AND, token.OR, token.XOR, token.AND_NOT:
		var ca, cb *big.Int
		if x, ok := new(big.Int).SetString(a.C[0], 10); ok {
			ca = x
		}
		if x, ok := new(big.Int).SetString(b.C[0], 10); ok {
			cb = x
		}
		TT := T
		if isUntyped(TT) {
			TT = tInt
		}
		if (n.Op == token.SHL || n.Op == token.SHR) && !isUntyped(a.T) {
			TT = a.T
		}
		r, _, _, err := arithOp(n.Op, a.C[0], b.C[0], TT, ca, cb)
		if err != nil {
			e.errorf("%v", err)
			return bad(T)
		}
		if n.Op == token.SHL && !isUnsigned(TT) {
			// spec arithmetic is mathematical
		}
		return Val{TT, []string{r}}
	}
	e.errorf("unsupported binary op %s", n.Op)
	return bad(T)
}

func (e *specEnv) isNil(v Val) string {
	switch under(v.T).(type) {
	case *types.Slice, *types.Interface, *types.Pointer, *types.Map, *types.Chan, *types.Signature:
		return eq(v.C[0], "0")
	}
	if isUntyped(v.T) {
		return "true"
	}
	e.errorf("comparison of %v with nil", v.T)
	return "true"
}

func (e *specEnv) withState(cur *State, f func() Val) Val {
	saved := e.cur
	savedVars := e.vars
	e.cur = cur
	if e.oldVars != nil {
		nv := map[string]Val{}
		for k, v := range e.oldVars {
			nv[k] = v
		}
		// quantifier-bound variables stay visible inside old(...)
		for k, v := range e.vars {
			if len(v.C) == 1 && strings.Contains(v.C[0], "!q") {
				nv[k] = v
			}
		}
		e.vars = nv
	}
	defer func() { e.cur = saved; e.vars = savedVars }()
	return f()
}

func (e *specEnv) quant(kind string, n *ast.CallExpr) Val {
	trig := ""
	if len(n.Args) == 4 {
		if bl, ok := n.Args[3].(*ast.BasicLit); ok {
			trig = strings.Trim(bl.Value, "\"")
		}
		n = &ast.CallExpr{Fun: n.Fun, Args: n.Args[:3]}
	}
	if len(n.Args) != 3 {
		e.errorf("%s(lo, hi, func(i int) bool {...})", kind)
		return Val{tBool, []string{"true"}}
	}
	lo, hi := e.eval(n.Args[0]).C[0], e.eval(n.Args[1]).C[0]
	fl, ok := n.Args[2].(*ast.FuncLit)
	if !ok || len(fl.Type.Params.List) != 1 || len(fl.Type.Params.List[0].Names) != 1 {
		e.errorf("%s: third argument must be func(i int) bool", kind)
		return Val{tBool, []string{"true"}}
	}
	name := fl.Type.Params.List[0].Names[0].Name
	e.t.nfr++
	bv := fmt.Sprintf("%s!q%d", name, e.t.nfr)
	saved, had := e.vars[name]
	e.vars[name] = Val{tInt, []string{q(bv)}}
	e.qvars = append(e.qvars, q(bv))
	defer func() { e.qvars = e.qvars[:len(e.qvars)-1] }()
	savedAcc := e.acc
	var accs []access
	e.acc = &accs
	body := e.funcBody(fl.Body)
	e.acc = savedAcc
	if had {
		e.vars[name] = saved
	} else {
		delete(e.vars, name)
	}
	if trig != "" {
		var keep []access
		for _, a := range accs {
			for _, tname := range strings.Split(trig, ",") {
				if strings.Contains(a.heapSel, strings.TrimSpace(tname)) {
					keep = append(keep, a)
					break
				}
			}
		}
		accs = keep
	}
	return Val{tBool, []string{reindex(kind, q(bv), lo, hi, body.C[0], accs, &e.t.nfr)}}
}

// funcBody evaluates a spec function body: if-chains of returns.
func (e *specEnv) funcBody(b *ast.BlockStmt) Val {
	return e.stmts(b.List)
}

func (e *specEnv) stmts(list []ast.Stmt) Val {
	if len(list) == 0 {
		e.errorf("spec function body falls off the end")
		return bad(nil)
	}
	switch s := list[0].(type) {
	case *ast.ReturnStmt:
		if len(s.Results) != 1 {
			e.errorf("spec function must return one value")
			return bad(nil)
		}
		return e.eval(s.Results[0])
	case *ast.IfStmt:
		if s.Init != nil {
			e.errorf("spec if with init")
			return bad(nil)
		}
		c := e.evalBool(s.Cond)
		th := e.stmts(s.Body.List)
		var el Val
		if s.Else != nil {
			switch eb := s.Else.(type) {
			case *ast.BlockStmt:
				el = e.stmts(eb.List)
			case *ast.IfStmt:
				el = e.stmts([]ast.Stmt{eb})
			}
		} else {
			el = e.stmts(list[1:])
		}
		if len(th.C) != len(el.C) {
			e.errorf("spec if branches differ in type")
			return th
		}
		T := th.T
		if isUntyped(T) {
			T = el.T
		}
		var out []string
		for i := range th.C {
			out = append(out, ite(c, th.C[i], el.C[i]))
		}
		return Val{T, out}
	case *ast.AssignStmt:
		// x := E ; rest   (let binding)
		if s.Tok == token.DEFINE && len(s.Lhs) == 1 && len(s.Rhs) == 1 {
			id := s.Lhs[0].(*ast.Ident)
			v := e.eval(s.Rhs[0])
			saved, had := e.vars[id.Name]
			e.vars[id.Name] = v
			r := e.stmts(list[1:])
			if had {
				e.vars[id.Name] = saved
			} else {
				delete(e.vars, id.Name)
			}
			return r
		}
	}
	e.errorf("unsupported statement %T in spec function", list[0])
	return bad(nil)
}

func (e *specEnv) call(n *ast.CallExpr) Val {
	// builtins
	if id, ok := n.Fun.(*ast.Ident); ok {
		switch id.Name {
		case "old":
			return e.withState(e.old, func() Val { return e.eval(n.Args[0]) })
		case "implies":
			return Val{tBool, []string{imp(e.evalBool(n.Args[0]), e.evalBool(n.Args[1]))}}
		case "iff":
			return Val{tBool, []string{eq(e.evalBool(n.Args[0]), e.evalBool(n.Args[1]))}}
		case "forall", "exists":
			return e.quant(id.Name, n)
		case "ite":
			c := e.evalBool(n.Args[0])
			a, b := e.eval(n.Args[1]), e.eval(n.Args[2])
			T := a.T
			if isUntyped(T) {
				T = b.T
			}
			var out []string
			for i := range a.C {
				out = append(out, ite(c, a.C[i], b.C[i]))
			}
			return Val{T, out}
		case "len", "cap", "off", "arr":
			v := e.eval(n.Args[0])
			switch under(v.T).(type) {
			case *types.Slice:
				k := map[string]int{"arr": 0, "off": 1, "len": 2, "cap": 3}[id.Name]
				return Val{tInt, []string{v.C[k]}}
			case *types.Basic:
				if isString(v.T) && id.Name == "len" {
					return Val{tInt, []string{"(strlen " + v.C[0] + ")"}}
				}
			case *types.Map:
				if id.Name == "len" {
					mt := under(v.T).(*types.Map)
					dn, ds := mapDomHeap(mt)
					return Val{tInt, []string{"(mapcard " + sel(e.t.heapGet(e.cur, dn, ds), v.C[0]) + ")"}}
				}
			}
			e.errorf("%s of %v", id.Name, v.T)
			return bad(tInt)
		case "min", "max":
			a, b := e.eval(n.Args[0]), e.eval(n.Args[1])
			T := a.T
			if isUntyped(T) {
				T = b.T
			}
			if id.Name == "min" {
				return Val{T, []string{ite(le(a.C[0], b.C[0]), a.C[0], b.C[0])}}
			}
			return Val{T, []string{ite(le(a.C[0], b.C[0]), b.C[0], a.C[0])}}
		case "fresh":
			v := e.eval(n.Args[0])
			oldTop := e.t.top(e.old)
			return Val{tBool, []string{and(lt(oldTop, v.C[0]), le(v.C[0], e.t.top(e.cur)))}}
		case "live":
			// live(r): the reference has been allocated by now (it is at most the current allocation mark)
			v := e.eval(n.Args[0])
			return Val{tBool, []string{le(v.C[0], e.t.top(e.cur))}}
		case "allocated":
			// the reference existed in the pre-state
			v := e.eval(n.Args[0])
			return Val{tBool, []string{le(v.C[0], e.t.top(e.old))}}
		case "eqbytes":
			a, b := e.eval(n.Args[0]), e.eval(n.Args[1])
			return Val{tBool, []string{e.eqElems(a, e.cur, b, e.cur)}}
		case "eqold":
			// eqold(a, b): a in the current state has the contents b had in the old state
			a := e.eval(n.Args[0])
			b := e.withState(e.old, func() Val { return e.eval(n.Args[1]) })
			return Val{tBool, []string{e.eqElems(a, e.cur, b, e.old)}}
		case "within":
			f, s := e.eval(n.Args[0]), e.eval(n.Args[1])
			nn := e.eval(n.Args[2]).C[0]
			return Val{tBool, []string{or(eq(f.C[2], "0"), and(eq(f.C[0], s.C[0]), le(s.C[1], f.C[1]), le(add(f.C[1], f.C[2]), add(s.C[1], nn))))}}
		case "sumlen":
			// sumlen(s, i, c) = sum over j in [i, len(s)) of (c + len(s[j])), s a slice of slices
			sv := e.eval(n.Args[0])
			iv := e.eval(n.Args[1]).C[0]
			cv := e.eval(n.Args[2]).C[0]
			sl, ok := under(sv.T).(*types.Slice)
			if !ok {
				e.errorf("sumlen: not a slice")
				return bad(tInt)
			}
			if _, ok := under(sl.Elem()).(*types.Slice); !ok {
				e.errorf("sumlen: not a slice of slices")
				return bad(tInt)
			}
			h := e.t.heapGet(e.cur, elemHeap(sl.Elem(), ".len"), arr2Sort("Int"))
			return Val{tInt, []string{fmt.Sprintf("(ssum %s %s %s %s)", sel(h, sv.C[0]), add(sv.C[1], iv), add(sv.C[1], sv.C[2]), cv)}}
		case "gfield":
			// gfield(x, "name"): ghost field of the object x (heap GF.name, Int -> Int)
			v := e.eval(n.Args[0])
			bl, ok := n.Args[1].(*ast.BasicLit)
			if !ok {
				e.errorf("gfield: second argument must be a string literal")
				return bad(tInt)
			}
			hn := "GF." + strings.Trim(bl.Value, "\"")
			e.t.eng.heapSort[hn] = "(Array Int Int)"
			ref := v.C[0]
			if _, isIface := under(v.T).(*types.Interface); isIface {
				ref = v.C[1]
			}
			return Val{tInt, []string{sel(e.t.heapGet(e.cur, hn, "(Array Int Int)"), ref)}}
		case "pow2":
			v := e.eval(n.Args[0])
			return Val{tBool, []string{"(pow2 " + v.C[0] + ")"}}
		case "disjoint":
			a, b := e.eval(n.Args[0]), e.eval(n.Args[1])
			return Val{tBool, []string{or(not(eq(a.C[0], b.C[0])), le(add(a.C[1], a.C[2]), b.C[1]), le(add(b.C[1], b.C[2]), a.C[1]))}}
		case "sameslice":
			a, b := e.eval(n.Args[0]), e.eval(n.Args[1])
			return Val{tBool, []string{and(eq(a.C[0], b.C[0]), eq(a.C[1], b.C[1]), eq(a.C[2], b.C[2]))}}
		case "samearr":
			// the whole backing array of s is as in the pre-state
			s := e.eval(n.Args[0])
			sl := under(s.T).(*types.Slice)
			var fs []string
			for _, c := range flatten(sl.Elem()) {
				hn := elemHeap(sl.Elem(), c.Suffix)
				fs = append(fs, eq(sel(e.t.heapGet(e.cur, hn, arr2Sort(c.Sort)), s.C[0]), sel(e.t.heapGet(e.old, hn, arr2Sort(c.Sort)), s.C[0])))
			}
			return Val{tBool, []string{and(fs...)}}
		case "unchanged":
			// unchanged(s) or unchanged(s, lo, hi): elements of s (as a location set evaluated now) equal their old contents
			s := e.eval(n.Args[0])
			lo, hi := "0", s.C[2]
			if len(n.Args) == 3 {
				lo, hi = e.eval(n.Args[1]).C[0], e.eval(n.Args[2]).C[0]
			}
			sl := under(s.T).(*types.Slice)
			e.t.nfr++
			bv := q(fmt.Sprintf("u!q%d", e.t.nfr))
			var fs []string
			for _, c := range flatten(sl.Elem()) {
				hn := elemHeap(sl.Elem(), c.Suffix)
				fs = append(fs, eq(sel(sel(e.t.heapGet(e.cur, hn, arr2Sort(c.Sort)), s.C[0]), bv), sel(sel(e.t.heapGet(e.old, hn, arr2Sort(c.Sort)), s.C[0]), bv)))
			}
			rng := and(le(add(s.C[1], lo), bv), lt(bv, add(s.C[1], hi)))
			var pats []string
			for _, c := range flatten(sl.Elem()) {
				hn := elemHeap(sl.Elem(), c.Suffix)
				pats = append(pats, ":pattern ("+sel(sel(e.t.heapGet(e.cur, hn, arr2Sort(c.Sort)), s.C[0]), bv)+")")
			}
			qf := fmt.Sprintf("(forall ((%s Int)) (! %s %s))", bv, imp(rng, and(fs...)), strings.Join(pats, " "))
			regFinite(qf, bv, add(s.C[1], lo), imp(rng, and(fs...)))
			return Val{tBool, []string{qf}}
		case "preservedexcept":
			// preservedexcept(s1, s2, ...): every pre-existing array of that element type other than the (old) backing
			// arrays of s1, s2, ... is unchanged
			var ex []Val
			for _, a := range n.Args {
				ex = append(ex, e.withState(e.old, func() Val { return e.eval(a) }))
			}
			sl0, ok := under(ex[0].T).(*types.Slice)
			if !ok {
				e.errorf("preservedexcept: not a slice")
				return Val{tBool, []string{"true"}}
			}
			var fs2 []string
			for _, c := range flatten(sl0.Elem()) {
				hn := elemHeap(sl0.Elem(), c.Suffix)
				cur := e.t.heapGet(e.cur, hn, arr2Sort(c.Sort))
				old := e.t.heapGet(e.old, hn, arr2Sort(c.Sort))
				e.t.nfr++
				bv := q(fmt.Sprintf("pe!q%d", e.t.nfr))
				conds := []string{le(bv, e.t.top(e.old))}
				for _, x := range ex {
					conds = append(conds, not(eq(bv, x.C[0])))
				}
				fs2 = append(fs2, fmt.Sprintf("(forall ((%s Int)) (! %s :pattern ((select %s %s))))", bv,
					imp(and(conds...), eq(sel(cur, bv), sel(old, bv))), cur, bv))
			}
			return Val{tBool, []string{and(fs2...)}}
		case "preservedmapsexcept":
			mv := e.withState(e.old, func() Val { return e.eval(n.Args[0]) })
			mt, ok := under(mv.T).(*types.Map)
			if !ok {
				e.errorf("preservedmapsexcept: not a map")
				return Val{tBool, []string{"true"}}
			}
			var fs3 []string
			names := []string{}
			sorts := []string{}
			dn, ds := mapDomHeap(mt)
			names = append(names, dn)
			sorts = append(sorts, ds)
			for _, c := range flatten(mt.Elem()) {
				vn, vs := mapValHeap(mt, c.Suffix, c.Sort)
				names = append(names, vn)
				sorts = append(sorts, vs)
			}
			for i, hn := range names {
				e.t.eng.heapSort[hn] = sorts[i]
				cur := e.t.heapGet(e.cur, hn, sorts[i])
				old := e.t.heapGet(e.old, hn, sorts[i])
				e.t.nfr++
				bv := q(fmt.Sprintf("pm!q%d", e.t.nfr))
				fs3 = append(fs3, fmt.Sprintf("(forall ((%s Int)) (! %s :pattern ((select %s %s))))", bv,
					imp(and(le(bv, e.t.top(e.old)), not(eq(bv, mv.C[0]))), eq(sel(cur, bv), sel(old, bv))), cur, bv))
			}
			return Val{tBool, []string{and(fs3...)}}
		case "preservedarrays":
			// preservedarrays(s): every array (of s's element type) that existed in the pre-state is unchanged
			sv := e.eval(n.Args[0])
			sl, ok := under(sv.T).(*types.Slice)
			if !ok {
				e.errorf("preservedarrays: not a slice")
				return Val{tBool, []string{"true"}}
			}
			var fs []string
			for _, c := range flatten(sl.Elem()) {
				hn := elemHeap(sl.Elem(), c.Suffix)
				cur := e.t.heapGet(e.cur, hn, arr2Sort(c.Sort))
				old := e.t.heapGet(e.old, hn, arr2Sort(c.Sort))
				e.t.nfr++
				bv := q(fmt.Sprintf("pa!q%d", e.t.nfr))
				fs = append(fs, fmt.Sprintf("(forall ((%s Int)) (! %s :pattern ((select %s %s))))", bv,
					imp(le(bv, e.t.top(e.old)), eq(sel(cur, bv), sel(old, bv))), cur, bv))
			}
			return Val{tBool, []string{and(fs...)}}
		case "preservedghost":
			// preservedghost("name"): the ghost field heap GF.name is as in the pre-state, for every key
			bl, ok := n.Args[0].(*ast.BasicLit)
			if !ok {
				e.errorf("preservedghost: string literal expected")
				return Val{tBool, []string{"true"}}
			}
			hn := "GF." + strings.Trim(bl.Value, "\"")
			e.t.eng.heapSort[hn] = "(Array Int Int)"
			return Val{tBool, []string{eq(e.t.heapGet(e.cur, hn, "(Array Int Int)"), e.t.heapGet(e.old, hn, "(Array Int Int)"))}}
		case "preservedobjs":
			// preservedobjs(T): every object of struct type T that existed in the pre-state has all its fields unchanged
			T := e.typeExpr(n.Args[0])
			if T == nil || !isStruct(T) {
				e.errorf("preservedobjs: not a struct type")
				return Val{tBool, []string{"true"}}
			}
			var l location
			e.t.collectStructHeaps(T, &l)
			var fs []string
			for i, hn := range l.heaps {
				cur := e.t.heapGet(e.cur, hn, l.sorts[i])
				old := e.t.heapGet(e.old, hn, l.sorts[i])
				if cur == old {
					continue
				}
				e.t.nfr++
				bv := q(fmt.Sprintf("po!q%d", e.t.nfr))
				fs = append(fs, fmt.Sprintf("(forall ((%s Int)) (! %s :pattern ((select %s %s))))", bv,
					imp(isOldRef(bv, e.t.top(e.old)), eq(sel(cur, bv), sel(old, bv))), cur, bv))
			}
			return Val{tBool, []string{and(fs...)}}
		case "preservedentries":
			// preservedentries(m): every entry that existed in any map of m's type before still exists with the same value
			// (maps may only have gained entries)
			mv := e.eval(n.Args[0])
			mt, ok := under(mv.T).(*types.Map)
			if !ok {
				e.errorf("preservedentries: not a map")
				return Val{tBool, []string{"true"}}
			}
			dn, ds := mapDomHeap(mt)
			e.t.nfr++
			bm, bk := q(fmt.Sprintf("pm!q%d", e.t.nfr)), q(fmt.Sprintf("pk!q%d", e.t.nfr))
			od := sel(sel(e.t.heapGet(e.old, dn, ds), bm), bk)
			nd := sel(sel(e.t.heapGet(e.cur, dn, ds), bm), bk)
			conj := []string{nd}
			pats := []string{":pattern (" + od + ")", ":pattern (" + nd + ")"}
			for _, c := range flatten(mt.Elem()) {
				vn, vs := mapValHeap(mt, c.Suffix, c.Sort)
				conj = append(conj, eq(sel(sel(e.t.heapGet(e.cur, vn, vs), bm), bk), sel(sel(e.t.heapGet(e.old, vn, vs), bm), bk)))
			}
			return Val{tBool, []string{fmt.Sprintf("(forall ((%s Int) (%s Int)) (! %s %s))", bm, bk, imp(and(lt("0", bm), od), and(conj...)), strings.Join(pats, " "))}}
		case "preservedmaps":
			// preservedmaps(m): every map (of m's type) that existed in the pre-state is unchanged
			mv := e.eval(n.Args[0])
			mt, ok := under(mv.T).(*types.Map)
			if !ok {
				e.errorf("preservedmaps: not a map")
				return Val{tBool, []string{"true"}}
			}
			var fs []string
			names := []string{}
			sorts := []string{}
			dn, ds := mapDomHeap(mt)
			names = append(names, dn)
			sorts = append(sorts, ds)
			for _, c := range flatten(mt.Elem()) {
				vn, vs := mapValHeap(mt, c.Suffix, c.Sort)
				names = append(names, vn)
				sorts = append(sorts, vs)
			}
			for i, hn := range names {
				e.t.eng.heapSort[hn] = sorts[i]
				cur := e.t.heapGet(e.cur, hn, sorts[i])
				old := e.t.heapGet(e.old, hn, sorts[i])
				e.t.nfr++
				bv := q(fmt.Sprintf("pm!q%d", e.t.nfr))
				fs = append(fs, fmt.Sprintf("(forall ((%s Int)) (! %s :pattern ((select %s %s))))", bv,
					imp(le(bv, e.t.top(e.old)), eq(sel(cur, bv), sel(old, bv))), cur, bv))
			}
			return Val{tBool, []string{and(fs...)}}
		case "unchangedoutside":
			// unchangedoutside(s, lo, hi): the backing array of s equals its old contents outside s[lo:hi]
			sv := e.eval(n.Args[0])
			lo, hi := e.eval(n.Args[1]).C[0], e.eval(n.Args[2]).C[0]
			sl := under(sv.T).(*types.Slice)
			var qs []string
			for _, c := range flatten(sl.Elem()) {
				e.t.nfr++
				bv := q(fmt.Sprintf("u!q%d", e.t.nfr))
				hn := elemHeap(sl.Elem(), c.Suffix)
				cur := sel(e.t.heapGet(e.cur, hn, arr2Sort(c.Sort)), sv.C[0])
				body := eq(sel(cur, bv), sel(sel(e.t.heapGet(e.old, hn, arr2Sort(c.Sort)), sv.C[0]), bv))
				rng := or(lt(bv, add(sv.C[1], lo)), le(add(sv.C[1], hi), bv))
				qf := fmt.Sprintf("(forall ((%s Int)) (! %s :pattern (%s)))", bv, imp(rng, body), sel(cur, bv))
				regFinite(qf, bv, sub(add(sv.C[1], lo), "3"), imp(rng, body))
				qs = append(qs, qf)
			}
			return Val{tBool, []string{and(qs...)}}
		case "ufi", "ufb":
			// ufi("name", args...) / ufb("name", args...): application of an uninterpreted function (Int / Bool result)
			// to the flattened components of the arguments; nothing is known about it except that it is a function.
			bl, ok := n.Args[0].(*ast.BasicLit)
			if !ok {
				e.errorf("%s: first argument must be a string literal", id.Name)
				return bad(tInt)
			}
			var comps []string
			for _, a := range n.Args[1:] {
				v := e.eval(a)
				for i, c := range v.C {
					if fl := flatten(v.T); i < len(fl) && fl[i].Sort == "Bool" {
						c = ite(c, "1", "0")
					}
					comps = append(comps, c)
				}
			}
			res, rt := "Int", tInt
			if id.Name == "ufb" {
				res, rt = "Bool", tBool
			}
			head := e.t.eng.uf("uf!"+strings.Trim(bl.Value, "\""), len(comps), res)
			return Val{rt, []string{head + " " + strings.Join(comps, " ") + ")"}}
		case "allentries":
			// allentries(m, func(k K, v V) bool {...}): the body holds for every entry of EVERY map of m's type in the
			// heap (a type invariant of that map type; m itself only names the type).
			mv := e.eval(n.Args[0])
			mt, ok := under(mv.T).(*types.Map)
			fl, ok2 := n.Args[1].(*ast.FuncLit)
			if !ok || !ok2 || len(fl.Type.Params.List) != 2 || len(fl.Type.Params.List[0].Names) != 1 || len(fl.Type.Params.List[1].Names) != 1 {
				e.errorf("allentries(m, func(k K, v V) bool {...})")
				return Val{tBool, []string{"true"}}
			}
			if ncomps(mt.Key()) != 1 {
				e.errorf("allentries: unsupported key type")
				return Val{tBool, []string{"true"}}
			}
			kn, vn := fl.Type.Params.List[0].Names[0].Name, fl.Type.Params.List[1].Names[0].Name
			e.t.nfr++
			bm, bk := q(fmt.Sprintf("m!q%d", e.t.nfr)), q(fmt.Sprintf("k!q%d", e.t.nfr))
			dn, ds := mapDomHeap(mt)
			dom := sel(sel(e.t.heapGet(e.cur, dn, ds), bm), bk)
			var vc []string
			for _, c := range flatten(mt.Elem()) {
				hn, hs := mapValHeap(mt, c.Suffix, c.Sort)
				vc = append(vc, sel(sel(e.t.heapGet(e.cur, hn, hs), bm), bk))
			}
			sk, hk := e.vars[kn]
			sv, hv := e.vars[vn]
			e.vars[kn] = Val{mt.Key(), []string{bk}}
			e.vars[vn] = Val{mt.Elem(), vc}
			e.qvars = append(e.qvars, bm, bk)
			body := e.funcBody(fl.Body)
			e.qvars = e.qvars[:len(e.qvars)-2]
			if hk {
				e.vars[kn] = sk
			} else {
				delete(e.vars, kn)
			}
			if hv {
				e.vars[vn] = sv
			} else {
				delete(e.vars, vn)
			}
			return Val{tBool, []string{fmt.Sprintf("(forall ((%s Int) (%s Int)) (! %s :pattern (%s) :pattern (%s)))", bm, bk,
				imp(and(lt("0", bm), dom), body.C[0]), vc[0], dom)}}
		case "ref":
			// ref(x): the object reference behind a pointer or interface value, as an integer (key of ghost fields)
			v := e.eval(n.Args[0])
			r := v.C[0]
			if _, isIface := under(v.T).(*types.Interface); isIface {
				r = v.C[1]
			}
			return Val{tInt, []string{r}}
		case "visited":
			// visited(k): key k has already been produced by the function's (single) iteration over a map
			if e.callee {
				return Val{tBool, []string{"true"}}
			}
			if nr := e.t.countMapRanges(); nr != 1 {
				e.errorf("visited: the function must contain exactly one range over a map (has %d)", nr)
				return Val{tBool, []string{"true"}}
			}
			if len(e.t.iters) == 0 {
				return Val{tBool, []string{"false"}}
			}
			kv := e.eval(n.Args[0])
			for _, it := range e.t.iters {
				return Val{tBool, []string{sel(e.t.heapGet(e.cur, it.heap, "(Array Int Bool)"), e.t.mapKey(kv))}}
			}
		case "allvisited":
			// allvisited(): every key of the map being iterated (key set at the range statement) has been produced
			if e.callee {
				return Val{tBool, []string{"true"}} // a fact about the callee's own loop: nothing for the caller
			}
			if nr := e.t.countMapRanges(); nr != 1 {
				e.errorf("allvisited: the function must contain exactly one range over a map (has %d)", nr)
				return Val{tBool, []string{"true"}}
			}
			if len(e.t.iters) == 0 {
				// evaluated at a point the iteration cannot have reached yet: nothing has been visited
				return Val{tBool, []string{"false"}}
			}
			for _, it := range e.t.iters {
				e.t.nfr++
				bv := q(fmt.Sprintf("av!q%d", e.t.nfr))
				vis := e.t.heapGet(e.cur, it.heap, "(Array Int Bool)")
				return Val{tBool, []string{or(eq(it.m, "0"), fmt.Sprintf("(forall ((%s Int)) (! %s :pattern ((select %s %s)) :pattern ((select %s %s))))", bv, imp(sel(it.dom0, bv), sel(vis, bv)), it.dom0, bv, vis, bv))}}
			}
		case "allobjs":
			// allobjs(T, "marker", func(x *T) bool {...}): the body holds for every object of struct type T whose ghost field <marker> is 1
			// (a type invariant; established by T's constructors, preserved by everything under contract)
			T := e.typeExpr(n.Args[0])
			if len(n.Args) != 3 {
				e.errorf("allobjs(T, \"marker\", func(x *T) bool {...})")
				return Val{tBool, []string{"true"}}
			}
			mk, okm := n.Args[1].(*ast.BasicLit)
			fl, ok2 := n.Args[2].(*ast.FuncLit)
			if T == nil || !isStruct(T) || !okm || !ok2 || len(fl.Type.Params.List) != 1 || len(fl.Type.Params.List[0].Names) != 1 {
				e.errorf("allobjs(T, \"marker\", func(x *T) bool {...})")
				return Val{tBool, []string{"true"}}
			}
			// the objects concerned are those whose ghost field <marker> is 1 (set by T's constructor only: ghost
			// fields are frame-checked), so objects other functions allocate are not constrained
			mh := "GF." + strings.Trim(mk.Value, "\"")
			e.t.eng.heapSort[mh] = "(Array Int Int)"
			xn := fl.Type.Params.List[0].Names[0].Name
			e.t.nfr++
			br := q(fmt.Sprintf("o!q%d", e.t.nfr))
			sx, hx := e.vars[xn]
			e.vars[xn] = Val{types.NewPointer(T), []string{br}}
			e.qvars = append(e.qvars, br)
			body := e.funcBody(fl.Body)
			e.qvars = e.qvars[:len(e.qvars)-1]
			if hx {
				e.vars[xn] = sx
			} else {
				delete(e.vars, xn)
			}
			var l location
			e.t.collectStructHeaps(T, &l)
			var pats []string
			for i, hn := range l.heaps {
				pats = append(pats, ":pattern ("+sel(e.t.heapGet(e.cur, hn, l.sorts[i]), br)+")")
			}
			msel := sel(e.t.heapGet(e.cur, mh, "(Array Int Int)"), br)
			pats = append(pats, ":pattern ("+msel+")")
			return Val{tBool, []string{fmt.Sprintf("(forall ((%s Int)) (! %s %s))", br,
				imp(eq(msel, "1"), body.C[0]), strings.Join(pats, " "))}}
		case "emptymap":
			// emptymap(m): the map m has no entries
			mv := e.eval(n.Args[0])
			mt, ok := under(mv.T).(*types.Map)
			if !ok {
				e.errorf("emptymap: not a map")
				return Val{tBool, []string{"true"}}
			}
			dn, ds := mapDomHeap(mt)
			return Val{tBool, []string{eq(sel(e.t.heapGet(e.cur, dn, ds), mv.C[0]), "((as const (Array Int Bool)) false)")}}
		case "haskey":
			m, k := e.eval(n.Args[0]), e.eval(n.Args[1])
			mt := under(m.T).(*types.Map)
			p, _ := e.t.mapRead(e.cur, mt, m.C[0], e.t.mapKey(k))
			if e.acc != nil {
				dn, ds := mapDomHeap(mt)
				kk := e.t.mapKey(k)
				*e.acc = append(*e.acc, access{sel(e.t.heapGet(e.cur, dn, ds), m.C[0]), "0", kk, kk})
			}
			return Val{tBool, []string{p}}
		case "typeis":
			// typeis(x, "pkg.Type") / typeis(x, (*T)(nil))? -> use identifier form typeis(x, T) or typeis(x, ptr(T))
			v := e.eval(n.Args[0])
			T := e.typeExpr(n.Args[1])
			if T == nil {
				return Val{tBool, []string{"true"}}
			}
			return Val{tBool, []string{eq(v.C[0], e.t.eng.typeID(T))}}
		case "ifaceval":
			// ifaceval(x, T): the dynamic value of x viewed as T
			v := e.eval(n.Args[0])
			T := e.typeExpr(n.Args[1])
			if T == nil {
				return bad(nil)
			}
			return Val{T, e.t.unboxIface(e.cur, v, T)}
		case "isErr":
			// isErr(err, X): err's dynamic value equals package-level error value X
			a, b := e.eval(n.Args[0]), e.eval(n.Args[1])
			if _, ok := under(b.T).(*types.Interface); !ok {
				// concrete value boxed
				return Val{tBool, []string{and(eq(a.C[0], e.t.eng.typeID(b.T)), eqComps(e.t.unboxIface(e.cur, a, b.T), b.C))}}
			}
			return Val{tBool, []string{eqComps(a.C, b.C)}}
		case "held":
			v := e.eval(n.Args[0])
			h := e.t.heapGet(e.cur, "$held", "(Array Int Int)")
			ref := v.C[0]
			if _, isIface := under(v.T).(*types.Interface); isIface {
				ref = v.C[1]
			}
			return Val{tBool, []string{not(eq(sel(h, ref), "0"))}}
		case "heldsame":
			// the set of locks held equals the one at function entry
			cur := e.t.heapGet(e.cur, "$held", "(Array Int Int)")
			old := e.t.heapGet(e.old, "$held", "(Array Int Int)")
			return Val{tBool, []string{eq(cur, old)}}
		case "heldnone":
			// this goroutine holds no lock at all (a freshly started goroutine, or a public entry point)
			cur := e.t.heapGet(e.cur, "$held", "(Array Int Int)")
			return Val{tBool, []string{eq(cur, "((as const (Array Int Int)) 0)")}}
		case "heldonly":
			// exactly the entry set plus the given lock
			v := e.eval(n.Args[0])
			ref := v.C[0]
			if _, isIface := under(v.T).(*types.Interface); isIface {
				ref = v.C[1]
			}
			cur := e.t.heapGet(e.cur, "$held", "(Array Int Int)")
			old := e.t.heapGet(e.old, "$held", "(Array Int Int)")
			return Val{tBool, []string{eq(cur, sto(old, ref, "1"))}}
		case "lockstate":
			v := e.eval(n.Args[0])
			h := e.t.heapGet(e.cur, "$held", "(Array Int Int)")
			return Val{tInt, []string{sel(h, v.C[0])}}
		case "addr":
			// addr(x.f): reference of a sub-object field
			return e.addrOf(n.Args[0])
		}
		// conversion to a basic or named type?
		if T := e.typeExpr(id); T != nil {
			return e.conv(T, n)
		}
		// spec macro (//@ define)
		if d := e.t.eng.cs.ByTarget["define "+e.pkg.Path()+"."+id.Name]; d != nil && d.DefExpr != nil {
			if len(n.Args) != len(d.DefParams) {
				e.errorf("define %s: %d arguments expected", id.Name, len(d.DefParams))
				return bad(tBool)
			}
			sub := &specEnv{t: e.t, vars: map[string]Val{}, lvs: map[string]*LVal{}, cur: e.cur, old: e.old, pkg: e.pkg, depth: e.depth + 1, acc: e.acc}
			for i, a := range n.Args {
				sub.vars[d.DefParams[i]] = e.eval(a)
			}
			r := sub.eval(d.DefExpr)
			e.errs = append(e.errs, sub.errs...)
			return r
		}
		// spec function in the package
		if fd := e.t.eng.specFunc(e.pkg, id.Name); fd != nil {
			return e.inline(fd, e.pkg, n.Args)
		}
		// pure ghost function (uninterpreted)
		if strings.HasPrefix(id.Name, "ghost") {
			var args []string
			for _, a := range n.Args {
				args = append(args, e.eval(a).C...)
			}
			return Val{tInt, []string{e.t.eng.uf(id.Name, len(args), "Int") + strings.Join(append([]string{""}, args...), " ") + ")"}}
		}
		e.errorf("unknown function %s in spec", id.Name)
		return bad(nil)
	}
	if se, ok := n.Fun.(*ast.SelectorExpr); ok {
		if id, ok := se.X.(*ast.Ident); ok {
			if p := e.findPkg(id.Name); p != nil && e.vars[id.Name].T == nil {
				// pkg.Type(x) conversion or pkg.specfunc
				if tn, ok := p.Scope().Lookup(se.Sel.Name).(*types.TypeName); ok {
					return e.conv(tn.Type(), n)
				}
				if fd := e.t.eng.specFunc(p, se.Sel.Name); fd != nil {
					return e.inline(fd, p, n.Args)
				}
				// macro of another package: its body is evaluated in that package's scope
				if d := e.t.eng.cs.ByTarget["define "+p.Path()+"."+se.Sel.Name]; d != nil && d.DefExpr != nil {
					if len(n.Args) != len(d.DefParams) {
						e.errorf("define %s: %d arguments expected", se.Sel.Name, len(d.DefParams))
						return bad(tBool)
					}
					sub := &specEnv{t: e.t, vars: map[string]Val{}, lvs: map[string]*LVal{}, cur: e.cur, old: e.old, pkg: p, depth: e.depth + 1, acc: e.acc}
					for i, a := range n.Args {
						sub.vars[d.DefParams[i]] = e.eval(a)
					}
					r := sub.eval(d.DefExpr)
					e.errs = append(e.errs, sub.errs...)
					return r
				}
			}
		}
	}
	if pe, ok := n.Fun.(*ast.ParenExpr); ok {
		if T := e.typeExpr(pe.X); T != nil {
			return e.conv(T, n)
		}
	}
	if at, ok := n.Fun.(*ast.ArrayType); ok {
		if T := e.typeExpr(at); T != nil {
			return e.conv(T, n)
		}
	}
	e.errorf("unsupported call in spec: %s", exprString(n.Fun))
	return bad(nil)
}

func (e *specEnv) addrOf(x ast.Expr) Val {
	se, ok := x.(*ast.SelectorExpr)
	if !ok {
		e.errorf("addr: need x.f")
		return bad(nil)
	}
	v := e.eval(se.X)
	pt, ok := under(v.T).(*types.Pointer)
	if !ok {
		e.errorf("addr: %v is not a pointer", v.T)
		return bad(nil)
	}
	T := pt.Elem()
	obj, path, _ := types.LookupFieldOrMethod(T, true, e.pkg, se.Sel.Name)
	if obj == nil {
		if nt, ok := T.(*types.Named); ok && nt.Obj().Pkg() != nil {
			obj, path, _ = types.LookupFieldOrMethod(T, true, nt.Obj().Pkg(), se.Sel.Name)
		}
	}
	if obj == nil {
		e.errorf("addr: no field %s", se.Sel.Name)
		return bad(nil)
	}
	ref := v.C[0]
	S := T
	for k, i := range path {
		su := under(S).(*types.Struct)
		f := su.Field(i)
		if k == len(path)-1 && !isStruct(f.Type()) {
			// the address of a non-struct field: the same term the translator uses when &x.f becomes a pointer value
			return Val{types.NewPointer(f.Type()), []string{fmt.Sprintf("(addrof %s %d)", ref, e.t.eng.fieldID(S, f.Name()))}}
		}
		if i != 0 {
			ref = subref(ref, S, i)
		}
		S = f.Type()
	}
	return Val{types.NewPointer(S), []string{ref}}
}

func exprString(x ast.Expr) string {
	return types.ExprString(x)
}

func (e *specEnv) typeExpr(x ast.Expr) types.Type {
	switch n := x.(type) {
	case *ast.Ident:
		if _, isVar := e.vars[n.Name]; isVar {
			return nil
		}
		obj := e.pkg.Scope().Lookup(n.Name)
		if obj == nil {
			obj = types.Universe.Lookup(n.Name)
		}
		if tn, ok := obj.(*types.TypeName); ok {
			return tn.Type()
		}
	case *ast.SelectorExpr:
		if id, ok := n.X.(*ast.Ident); ok {
			if p := e.findPkg(id.Name); p != nil {
				if tn, ok := p.Scope().Lookup(n.Sel.Name).(*types.TypeName); ok {
					return tn.Type()
				}
			}
		}
	case *ast.StarExpr:
		if T := e.typeExpr(n.X); T != nil {
			return types.NewPointer(T)
		}
	case *ast.ParenExpr:
		return e.typeExpr(n.X)
	case *ast.ArrayType:
		if n.Len == nil {
			if T := e.typeExpr(n.Elt); T != nil {
				return types.NewSlice(T)
			}
		}
	case *ast.MapType:
		K, V := e.typeExpr(n.Key), e.typeExpr(n.Value)
		if K != nil && V != nil {
			return types.NewMap(K, V)
		}
	case *ast.InterfaceType:
		if n.Methods == nil || len(n.Methods.List) == 0 {
			return types.NewInterfaceType(nil, nil)
		}
	}
	return nil
}

func (e *specEnv) conv(T types.Type, n *ast.CallExpr) Val {
	if len(n.Args) != 1 {
		e.errorf("conversion needs one argument")
		return bad(T)
	}
	v := e.eval(n.Args[0])
	if isInteger(T) && (isInteger(v.T) || isUntyped(v.T)) {
		from := v.T
		if isUntyped(from) {
			return Val{T, v.C}
		}
		return Val{T, []string{convInt(v.C[0], from, T)}}
	}
	if isString(T) {
		if sl, ok := under(v.T).(*types.Slice); ok {
			h := e.t.heapGet(e.cur, elemHeap(sl.Elem(), ""), arr2Sort("Int"))
			return Val{T, []string{fmt.Sprintf("(strof %s %s %s)", sel(h, v.C[0]), v.C[1], v.C[2])}}
		}
	}
	if len(v.C) == ncomps(T) {
		return Val{T, v.C}
	}
	e.errorf("unsupported conversion to %v", T)
	return bad(T)
}

// eqElems: slices a (in state sa) and b (in state sb) have equal length and pointwise equal elements.
func (e *specEnv) eqElems(a Val, sa *State, b Val, sb *State) string {
	sl, ok := under(a.T).(*types.Slice)
	if !ok {
		e.errorf("eqbytes on %v", a.T)
		return "true"
	}
	e.t.nfr++
	K := q(fmt.Sprintf("k!q%d", e.t.nfr))
	var fs []string
	var accs []access
	for _, c := range flatten(sl.Elem()) {
		hn := elemHeap(sl.Elem(), c.Suffix)
		ha := e.t.heapGet(sa, hn, arr2Sort(c.Sort))
		hb := e.t.heapGet(sb, hn, arr2Sort(c.Sort))
		fs = append(fs, eq(sel(sel(ha, a.C[0]), add(a.C[1], K)), sel(sel(hb, b.C[0]), add(b.C[1], K))))
		accs = append(accs, access{sel(ha, a.C[0]), a.C[1], K, add(a.C[1], K)}, access{sel(hb, b.C[0]), b.C[1], K, add(b.C[1], K)})
	}
	return and(eq(a.C[2], b.C[2]), reindex("forall", K, "0", a.C[2], and(fs...), accs, &e.t.nfr))
}

// inline expands a spec function (executable Go in the contract file).
func (e *specEnv) inline(fd *ast.FuncDecl, pkg *types.Package, args []ast.Expr) Val {
	if e.depth > 20 {
		e.errorf("spec function recursion too deep in %s", fd.Name.Name)
		return bad(nil)
	}
	var names []string
	for _, f := range fd.Type.Params.List {
		for _, nm := range f.Names {
			names = append(names, nm.Name)
		}
	}
	if len(names) != len(args) {
		e.errorf("spec function %s: %d args expected", fd.Name.Name, len(names))
		return bad(nil)
	}
	// parameter types from the types.Func
	fobj, _ := pkg.Scope().Lookup(fd.Name.Name).(*types.Func)
	sub := &specEnv{t: e.t, vars: map[string]Val{}, lvs: map[string]*LVal{}, cur: e.cur, old: e.old, pkg: pkg, depth: e.depth + 1, acc: e.acc, qvars: e.qvars}
	for i, a := range args {
		v := e.eval(a)
		if fobj != nil {
			pt := fobj.Type().(*types.Signature).Params().At(i).Type()
			if isUntyped(v.T) || (isInteger(v.T) && isInteger(pt)) {
				v = Val{pt, v.C}
			}
		}
		sub.vars[names[i]] = v
	}
	r := sub.funcBody(fd.Body)
	if fobj != nil {
		rt := fobj.Type().(*types.Signature).Results().At(0).Type()
		if len(r.C) == ncomps(rt) {
			r = Val{rt, r.C}
		}
	}
	e.errs = append(e.errs, sub.errs...)
	return e.nameIt(r)
}

// nameIt replaces a large closed term by a named constant (common-subexpression sharing).
func (e *specEnv) nameIt(r Val) Val {
	out := make([]string, len(r.C))
	for i, c := range r.C {
		out[i] = c
		if len(c) < 60 {
			continue
		}
		closed := true
		for _, qv := range e.qvars {
			if strings.Contains(c, qv) {
				closed = false
				break
			}
		}
		if !closed || strings.Contains(c, "!q") {
			continue
		}
		if nm, ok := e.t.cse[c]; ok {
			out[i] = nm
			continue
		}
		sort := "Int"
		if isBool(r.T) && len(r.C) == 1 {
			sort = "Bool"
		}
		nm := e.t.freshConst("sf", sort)
		e.t.assumeRaw(eq(nm, c))
		e.t.cse[c] = nm
		out[i] = nm
	}
	return Val{r.T, out}
}
