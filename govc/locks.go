package main

import (
	"go/types"

	"golang.org/x/tools/go/ssa"
)

// Lock discipline: contracts with `flag lock acquire|release|...` manipulate the ghost
// heap $held (lock ref -> 0 free, 1 held by this goroutine). See DESIGN §2.5.
func (t *fnTrans) lockEffect(ins ssa.Instruction, ct *Contract, env *specEnv) {
	mode := ct.Flags["lock"]
	if mode == "" {
		return
	}
	recv := env.vars[recvName(ct, env)]
	if recv.T == nil {
		t.errorf("lock contract without receiver")
		return
	}
	m := recv.C[0]
	if _, isIface := under(recv.T).(*types.Interface); isIface {
		m = recv.C[1] // the lock object behind a sync.Locker
	}
	hs := "(Array Int Int)"
	t.eng.heapSort["$held"] = hs
	h := t.heapGet(t.st, "$held", hs)
	switch mode {
	case "acquire":
		t.oblig("lock", ins, "acquire", eq(sel(h, m), "0"), "lock acquired while already held by this goroutine (self-deadlock)")
		t.heapSet(t.st, "$held", hs, sto(h, m, "1"))
	case "release":
		t.oblig("lock", ins, "release", eq(sel(h, m), "1"), "unlock of a lock not held")
		t.heapSet(t.st, "$held", hs, sto(h, m, "0"))
	case "racquire":
		t.oblig("lock", ins, "racquire", eq(sel(h, m), "0"), "read-lock acquired while lock held by this goroutine")
		t.heapSet(t.st, "$held", hs, sto(h, m, "2"))
	case "rrelease":
		t.oblig("lock", ins, "rrelease", eq(sel(h, m), "2"), "read-unlock of a lock not read-held")
		t.heapSet(t.st, "$held", hs, sto(h, m, "0"))
	}
}

func recvName(ct *Contract, env *specEnv) string {
	if r, ok := ct.Flags["recv"]; ok {
		return r
	}
	for _, n := range []string{"m", "rw", "c", "self"} {
		if _, ok := env.vars[n]; ok {
			return n
		}
	}
	return "self"
}

// lockBalance: at return the set of held locks equals the set at entry
// (unless the contract declares otherwise with flag lockdelta).
func (t *fnTrans) lockBalance(x *ssa.Return) {
	cur, ok := t.st.heaps["$held"]
	if !ok {
		return
	}
	if t.ct.Flags["lockdelta"] != "" {
		return
	}
	ent := t.heapGet(t.entry, "$held", "(Array Int Int)")
	if cur == ent {
		return
	}
	r := t.freshConst("lk", "Int")
	t.oblig("lock", x, "balance", eq(sel(cur, r), sel(ent, r)), "a lock is still held (or was released) on this return path")
}
