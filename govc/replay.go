package main

// Replay: turn a solver model of a failed obligation into an in-package Go test
// that builds the inputs, calls the real function and re-checks the obligation.

import (
	"bytes"
	"encoding/json"
	"fmt"
	"go/ast"
	"go/types"
	"os"
	"os/exec"
	"path/filepath"
	"regexp"
	"sort"
	"strconv"
	"strings"
	"time"
)

var replayMaxElems = 40

type rnode struct {
	kind   string // int bool slice ptr iface string nilonly
	T      types.Type
	terms  []string // comps
	elems  []*rnode // slice elements (up to replayMaxElems)
	fields []*rnode // struct fields (ptr / struct)
	fnames []string
	S      types.Type
}

type replayCtx struct {
	t     *fnTrans
	terms []string
	seen  map[string]bool
	small []string // small-model constraints
	facts []string // type facts of the queried terms (always asserted)
	depth int
}

func (rc *replayCtx) want(term string) {
	if !rc.seen[term] {
		rc.seen[term] = true
		rc.terms = append(rc.terms, term)
	}
}

// entryHeap returns the entry version of a heap if the function's VC mentions it.
func (rc *replayCtx) entryHeap(name string) (string, bool) {
	if rc.t.declared[name+"@0"] {
		return q(name + "@0"), true
	}
	return "", false
}

func (rc *replayCtx) walk(T types.Type, comps []string, depth int) *rnode {
	n := &rnode{T: T, terms: comps}
	for _, c := range comps {
		rc.want(c)
	}
	rc.facts = append(rc.facts, rangeFact(T, comps))
	switch u := under(T).(type) {
	case *types.Basic:
		switch {
		case isBool(T):
			n.kind = "bool"
		case isString(T):
			n.kind = "string"
			rc.want("(strlen " + comps[0] + ")")
			rc.small = append(rc.small, le("(strlen "+comps[0]+")", fmt.Sprint(replayMaxElems)))
			for i := 0; i < replayMaxElems; i++ {
				rc.want(fmt.Sprintf("(strbyte %s %d)", comps[0], i))
			}
		default:
			n.kind = "int"
		}
	case *types.Slice:
		n.kind = "slice"
		rc.small = append(rc.small, le(comps[2], fmt.Sprint(replayMaxElems)), le(comps[3], fmt.Sprint(replayMaxElems+8)), le(comps[1], "64"))
		if depth > 3 {
			return n
		}
		ecomps := flatten(u.Elem())
		max := replayMaxElems
		if len(ecomps) > 1 {
			max = 6
			rc.small = append(rc.small, le(comps[2], "6"))
		}
		for i := 0; i < max; i++ {
			var ec []string
			ok := true
			for _, c := range ecomps {
				h, has := rc.entryHeap(elemHeap(u.Elem(), c.Suffix))
				if !has {
					ok = false
					break
				}
				ec = append(ec, sel(sel(h, comps[0]), add(comps[1], fmt.Sprint(i))))
			}
			if !ok {
				break
			}
			n.elems = append(n.elems, rc.walk(u.Elem(), ec, depth+1))
		}
	case *types.Pointer:
		n.kind = "ptr"
		if isStruct(u.Elem()) && depth <= 3 {
			n.S = u.Elem()
			rc.walkStruct(n, u.Elem(), comps[0], depth)
		}
	case *types.Interface:
		n.kind = "iface"
	case *types.Struct:
		n.kind = "struct"
		k := 0
		for i := 0; i < u.NumFields(); i++ {
			f := u.Field(i)
			m := ncomps(f.Type())
			n.fields = append(n.fields, rc.walk(f.Type(), comps[k:k+m], depth+1))
			n.fnames = append(n.fnames, f.Name())
			k += m
		}
	default:
		n.kind = "nilonly"
	}
	return n
}

func (rc *replayCtx) walkStruct(n *rnode, S types.Type, ref string, depth int) {
	su := under(S).(*types.Struct)
	for i := 0; i < su.NumFields(); i++ {
		f := su.Field(i)
		if isStruct(f.Type()) {
			r := ref
			if i != 0 {
				r = subref(ref, S, i)
			}
			sub := &rnode{kind: "struct", T: f.Type()}
			rc.walkStruct(sub, f.Type(), r, depth)
			n.fields = append(n.fields, sub)
			n.fnames = append(n.fnames, f.Name())
			continue
		}
		var fc []string
		ok := true
		for _, c := range flatten(f.Type()) {
			h, has := rc.entryHeap(fieldHeap(S, f.Name(), c.Suffix))
			if !has {
				ok = false
				break
			}
			fc = append(fc, sel(h, ref))
		}
		if !ok {
			n.fields = append(n.fields, nil)
			n.fnames = append(n.fnames, f.Name())
			continue
		}
		n.fields = append(n.fields, rc.walk(f.Type(), fc, depth+1))
		n.fnames = append(n.fnames, f.Name())
	}
}

// ---------- Go code generation from a valued tree ----------

type goGen struct {
	vals    map[string]string // term -> value
	sb      strings.Builder
	arrays  map[string]*garr // key: elemtype|arr id
	objs    map[string]string
	nv      int
	pkg     *types.Package
	bad     string
	imports map[string]bool
}

type garr struct {
	name  string
	elemT string
	size  int64
	asg   []string
}

func (g *goGen) v(term string) string {
	if x, ok := g.vals[term]; ok {
		return x
	}
	return "0"
}
func (g *goGen) vi(term string) int64 {
	x, _ := strconv.ParseInt(g.v(term), 10, 64)
	return x
}

func (g *goGen) typeStr(T types.Type) string {
	return types.TypeString(T, func(p *types.Package) string {
		if p == g.pkg {
			return ""
		}
		g.imports[p.Path()] = true
		return p.Name()
	})
}

// expr returns a Go expression for node n, emitting set-up statements as needed.
func (g *goGen) expr(n *rnode) string {
	if n == nil {
		return ""
	}
	switch n.kind {
	case "int":
		return fmt.Sprintf("%s(%s)", g.typeStr(n.T), g.v(n.terms[0]))
	case "bool":
		return g.v(n.terms[0])
	case "string":
		l := g.vi("(strlen " + n.terms[0] + ")")
		var bs []byte
		for i := int64(0); i < l && i < int64(replayMaxElems); i++ {
			bs = append(bs, byte(g.vi(fmt.Sprintf("(strbyte %s %d)", n.terms[0], i))))
		}
		return strconv.Quote(string(bs))
	case "slice":
		arr, off, ln, cp := g.vi(n.terms[0]), g.vi(n.terms[1]), g.vi(n.terms[2]), g.vi(n.terms[3])
		et := under(n.T).(*types.Slice).Elem()
		if arr == 0 {
			return "nil"
		}
		if cp < ln {
			cp = ln
		}
		key := fmt.Sprintf("%s|%d", g.typeStr(et), arr)
		ga := g.arrays[key]
		if ga == nil {
			g.nv++
			ga = &garr{name: fmt.Sprintf("arr%d", arr), elemT: g.typeStr(et)}
			g.arrays[key] = ga
		}
		if off+cp > ga.size {
			ga.size = off + cp
		}
		for i, e := range n.elems {
			if int64(i) >= ln {
				break
			}
			ga.asg = append(ga.asg, fmt.Sprintf("%s[%d] = %s", ga.name, off+int64(i), g.expr(e)))
		}
		return fmt.Sprintf("%s[%d:%d:%d]", ga.name, off, off+ln, off+cp)
	case "ptr":
		ref := g.v(n.terms[0])
		if ref == "0" {
			return "nil"
		}
		if n.S == nil {
			g.bad = "pointer to non-struct in inputs"
			return "nil"
		}
		if name, ok := g.objs[ref]; ok {
			return name
		}
		name := fmt.Sprintf("obj%s", strings.Trim(strings.ReplaceAll(ref, "-", "m"), "() "))
		g.objs[ref] = name
		var asg strings.Builder
		fmt.Fprintf(&asg, "%s := &%s{}\n", name, g.typeStr(n.S))
		g.structAssign(&asg, name, n)
		g.sb.WriteString(asg.String())
		return name
	case "iface":
		if g.v(n.terms[0]) == "0" {
			return "nil"
		}
		if types.Identical(n.T, types.Universe.Lookup("error").Type()) {
			g.imports["errors"] = true
			return `errors.New("replay")`
		}
		g.bad = "non-nil interface value in inputs"
		return "nil"
	case "struct":
		g.bad = "struct value in inputs"
		return g.typeStr(n.T) + "{}"
	}
	return "nil"
}

func (g *goGen) structAssign(sb *strings.Builder, prefix string, n *rnode) {
	for i, f := range n.fields {
		if f == nil {
			continue
		}
		if f.kind == "struct" && f.terms == nil {
			g.structAssign(sb, prefix+"."+n.fnames[i], f)
			continue
		}
		if f.kind == "nilonly" {
			continue
		}
		e := g.expr(f)
		fmt.Fprintf(sb, "%s.%s = %s\n", prefix, n.fnames[i], e)
	}
}

// ---------- contract clause -> Go ----------

type goPrinter struct {
	olds   []string // hoisted old() expressions
	ok     bool
	why    string
	fn     *fnTrans
}

func (p *goPrinter) print(x ast.Expr, inOld bool) string {
	switch n := x.(type) {
	case *ast.ParenExpr:
		return "(" + p.print(n.X, inOld) + ")"
	case *ast.BasicLit:
		return n.Value
	case *ast.Ident:
		return n.Name
	case *ast.SelectorExpr:
		return p.print(n.X, inOld) + "." + n.Sel.Name
	case *ast.IndexExpr:
		return p.print(n.X, inOld) + "[" + p.print(n.Index, inOld) + "]"
	case *ast.SliceExpr:
		lo, hi := "", ""
		if n.Low != nil {
			lo = p.print(n.Low, inOld)
		}
		if n.High != nil {
			hi = p.print(n.High, inOld)
		}
		return p.print(n.X, inOld) + "[" + lo + ":" + hi + "]"
	case *ast.StarExpr:
		return "*" + p.print(n.X, inOld)
	case *ast.UnaryExpr:
		return n.Op.String() + p.print(n.X, inOld)
	case *ast.BinaryExpr:
		return "(" + p.print(n.X, inOld) + " " + n.Op.String() + " " + p.print(n.Y, inOld) + ")"
	case *ast.FuncLit:
		// func(i int) bool { return E }
		if len(n.Body.List) == 1 {
			if rs, ok := n.Body.List[0].(*ast.ReturnStmt); ok && len(rs.Results) == 1 {
				name := n.Type.Params.List[0].Names[0].Name
				return "func(" + name + " int) bool { return " + p.print(rs.Results[0], inOld) + " }"
			}
		}
		p.ok, p.why = false, "complex function literal"
		return "nil"
	case *ast.CallExpr:
		if id, ok := n.Fun.(*ast.Ident); ok {
			switch id.Name {
			case "implies":
				return "(!(" + p.print(n.Args[0], inOld) + ") || (" + p.print(n.Args[1], inOld) + "))"
			case "iff":
				return "((" + p.print(n.Args[0], inOld) + ") == (" + p.print(n.Args[1], inOld) + "))"
			case "forall":
				return "vrForall(" + p.print(n.Args[0], inOld) + ", " + p.print(n.Args[1], inOld) + ", " + p.print(n.Args[2], inOld) + ")"
			case "exists":
				return "vrExists(" + p.print(n.Args[0], inOld) + ", " + p.print(n.Args[1], inOld) + ", " + p.print(n.Args[2], inOld) + ")"
			case "old":
				if inOld {
					return p.print(n.Args[0], true)
				}
				s := p.print(n.Args[0], true)
				p.olds = append(p.olds, s)
				return fmt.Sprintf("vrOld%d", len(p.olds)-1)
			case "eqbytes":
				return "vrEqBytes(" + p.print(n.Args[0], inOld) + ", " + p.print(n.Args[1], inOld) + ")"
			case "disjoint":
				return "vrDisjoint(" + p.print(n.Args[0], inOld) + ", " + p.print(n.Args[1], inOld) + ")"
			case "sameslice":
				return "vrSameSlice(" + p.print(n.Args[0], inOld) + ", " + p.print(n.Args[1], inOld) + ")"
			case "within":
				return "vrWithin(" + p.print(n.Args[0], inOld) + ", " + p.print(n.Args[1], inOld) + ", " + p.print(n.Args[2], inOld) + ")"
			case "isErr":
				return "(" + p.print(n.Args[0], inOld) + " == error(" + p.print(n.Args[1], inOld) + "))"
			case "arr", "off", "fresh", "allocated", "samearr", "unchanged", "held", "lockstate", "eqold", "typeis", "ifaceval", "addr", "haskey", "ite":
				p.ok, p.why = false, "clause uses ghost-only builtin "+id.Name
				return "true"
			}
		}
		var args []string
		for _, a := range n.Args {
			args = append(args, p.print(a, inOld))
		}
		return p.print(n.Fun, inOld) + "(" + strings.Join(args, ", ") + ")"
	case *ast.ArrayType:
		return types.ExprString(n)
	}
	p.ok, p.why = false, fmt.Sprintf("unsupported node %T", x)
	return "true"
}

const replayHelpers = `
func vrForall(lo, hi int, f func(int) bool) bool { for i := lo; i < hi; i++ { if !f(i) { return false } }; return true }
func vrExists(lo, hi int, f func(int) bool) bool { for i := lo; i < hi; i++ { if f(i) { return true } }; return false }
func vrEqBytes(a, b []byte) bool { if len(a) != len(b) { return false }; for i := range a { if a[i] != b[i] { return false } }; return true }
func vrSameSlice(a, b []byte) bool { return len(a) == len(b) && (len(a) == 0 || &a[0] == &b[0]) }
func vrDisjoint(a, b []byte) bool {
	for i := range a { for j := range b { if &a[i] == &b[j] { return false } } }
	return true
}
func vrWithin(f, s []byte, n int) bool {
	if len(f) == 0 { return true }
	for i := 0; i+len(f) <= n && i+len(f) <= len(s); i++ { if &s[i] == &f[0] { return true } }
	return false
}
`

// ---------- driver ----------

func parseGetValue(out string) map[string]string {
	// output: sat \n ((term value) (term value) ...)
	res := map[string]string{}
	i := strings.Index(out, "((")
	if i < 0 {
		return res
	}
	s := out[i+1:]
	// parse a sequence of (term value) pairs
	pos := 0
	readSexp := func() string {
		for pos < len(s) && (s[pos] == ' ' || s[pos] == '\n' || s[pos] == '\t') {
			pos++
		}
		if pos >= len(s) {
			return ""
		}
		start := pos
		if s[pos] == '(' {
			depth := 0
			for pos < len(s) {
				switch s[pos] {
				case '(':
					depth++
				case ')':
					depth--
				case '|':
					pos++
					for pos < len(s) && s[pos] != '|' {
						pos++
					}
				}
				pos++
				if depth == 0 {
					break
				}
			}
			return s[start:pos]
		}
		if s[pos] == '|' {
			pos++
			for pos < len(s) && s[pos] != '|' {
				pos++
			}
			pos++
			return s[start:pos]
		}
		for pos < len(s) && s[pos] != ' ' && s[pos] != ')' && s[pos] != '\n' {
			pos++
		}
		return s[start:pos]
	}
	for pos < len(s) {
		for pos < len(s) && (s[pos] == ' ' || s[pos] == '\n') {
			pos++
		}
		if pos >= len(s) || s[pos] != '(' {
			break
		}
		pos++ // open pair
		term := readSexp()
		val := readSexp()
		for pos < len(s) && s[pos] != ')' {
			pos++
		}
		pos++
		val = strings.TrimSpace(val)
		if strings.HasPrefix(val, "(-") {
			val = "-" + strings.TrimSpace(strings.Trim(val[2:], "() "))
		}
		res[normTerm(term)] = val
	}
	return res
}

var symRe = regexp.MustCompile(`\|[^|]*\|`)

func normTerm(s string) string { return strings.Join(strings.Fields(s), " ") }

var safetyKinds = map[string]bool{"bounds": true, "slice": true, "strictslice": true, "nil": true, "div": true, "typeassert": true, "unreachable": true, "makeslice": true}

// writeReplay stores what is known about a failed obligation; returns the path.
func writeReplay(eng *Engine, prop string, r *Result, qdir string) string {
	dir := "/verif/replays"
	os.MkdirAll(dir, 0o755)
	name := strings.NewReplacer("/", "_", "(", "", ")", "", "*", "", "#", "-", " ", "", ".", "_").Replace(r.Ob.Name)
	txt := filepath.Join(dir, prop+"_"+name+".txt")
	var sb strings.Builder
	fmt.Fprintf(&sb, "property: %s\nobligation: %s\nkind: %s\nat: %s\nwhat: %s\nsolver status: %s\n", prop, r.Ob.Name, r.Ob.Kind, r.Ob.Pos, r.Ob.Desc, r.Status)
	gofile := ""
	if r.Status == "sat" && r.fv != nil && r.fv.tr != nil {
		gf, log, repro := tryReplay(eng, prop, r, dir, name)
		gofile = gf
		r.reproduced = repro
		fmt.Fprintf(&sb, "\n--- replay ---\n%s\n", log)
	} else if r.Status == "sat" && r.fv != nil && r.fv.bvFn != "" {
		gf, log, repro := bvReplay(eng, prop, r, dir, name)
		gofile = gf
		r.reproduced = repro
		fmt.Fprintf(&sb, "\n--- replay ---\n%s\n", log)
	}
	fmt.Fprintf(&sb, "\nformula: %s\nguard: %s\n", r.Ob.Formula, r.Ob.Guard)
	if r.Model != "" {
		m := r.Model
		if len(m) > 20000 {
			m = m[:20000] + "\n...(truncated)"
		}
		fmt.Fprintf(&sb, "\n--- solver model (counterexample to the obligation) ---\n%s\n", m)
	} else {
		fmt.Fprintf(&sb, "\n--- solver output ---\n%s\n", r.Output)
	}
	os.WriteFile(txt, []byte(sb.String()), 0o644)
	if gofile != "" && r.reproduced {
		return gofile
	}
	return txt
}

func tryReplay(eng *Engine, prop string, r *Result, dir, name string) (gofile, log string, reproduced bool) {
	for _, n := range []int{40, 200} {
		replayMaxElems = n
		gofile, log, reproduced = tryReplayN(eng, prop, r, dir, name)
		if reproduced || gofile != "" {
			break
		}
	}
	replayMaxElems = 40
	return
}

func tryReplayN(eng *Engine, prop string, r *Result, dir, name string) (gofile, log string, reproduced bool) {
	t := r.fv.tr
	fn := t.fn
	rc := &replayCtx{t: t, seen: map[string]bool{}}
	var roots []*rnode
	for _, p := range fn.Params {
		roots = append(roots, rc.walk(p.Type(), t.vals[p].C, 0))
	}
	// globals the function reads: integer cells only
	type gl struct {
		name string
		term string
		T    types.Type
	}
	var globals []gl
	for gname := range eng.globals {
		if !strings.HasPrefix(gname, fn.Pkg.Pkg.Path()+".") {
			continue
		}
		obj, _ := fn.Pkg.Pkg.Scope().Lookup(strings.TrimPrefix(gname, fn.Pkg.Pkg.Path()+".")).(*types.Var)
		if obj == nil || !isInteger(obj.Type()) {
			continue
		}
		if h, ok := rc.entryHeap(cellHeap(obj.Type(), "")); ok {
			term := sel(h, eng.globalByName(gname))
			rc.want(term)
			rc.facts = append(rc.facts, rangeFact(obj.Type(), []string{term}))
			globals = append(globals, gl{obj.Name(), term, obj.Type()})
		}
	}
	// model query with small-model constraints, relaxed step by step
	var vals map[string]string
	var lastOut string
	for attempt := 0; attempt < 3; attempt++ {
		var extra strings.Builder
		modelKeepQuant = attempt < 1 && replayMaxElems <= 40
		for _, c := range rc.facts {
			if c != "true" {
				extra.WriteString("(assert " + c + ")\n")
			}
		}
		for _, c := range rc.small {
			extra.WriteString("(assert " + c + ")\n")
		}
		if attempt < 2 {
			// prefer cap == len, off == 0 for parameter slices (C04: capacity equals length)
			for _, p := range fn.Params {
				if _, ok := under(p.Type()).(*types.Slice); ok {
					c := t.vals[p].C
					extra.WriteString("(assert " + and(eq(c[2], c[3]), eq(c[1], "0")) + ")\n")
				}
			}
		}
		qs := buildQuery(eng, "z3", r.fv, r.k, true)
		declared := func(term string) bool {
			for _, sym := range symRe.FindAllString(term, -1) {
				if !strings.Contains(qs, "(declare-const "+sym+" ") {
					return false
				}
			}
			return true
		}
		var terms []string
		for _, tm := range rc.terms {
			if declared(tm) {
				terms = append(terms, tm)
			}
		}
		var ex2 strings.Builder
		for _, ln := range strings.Split(extra.String(), "\n") {
			if ln != "" && declared(ln) {
				ex2.WriteString(ln + "\n")
			}
		}
		qs = strings.Replace(qs, "(check-sat)\n(get-model)\n", ex2.String()+"(check-sat)\n(get-value ("+strings.Join(terms, " ")+"))\n", 1)
		file := filepath.Join(dir, "."+name+".model.smt2")
		os.WriteFile(file, []byte(qs), 0o644)
		st, out, _ := runSolver("z3new", file, 6*time.Second)
		if os.Getenv("GOVC_KEEP_MODEL") == "" {
			os.Remove(file)
		}
		modelKeepQuant = false
		lastOut = out
		if st == "sat" {
			vals = parseGetValue(out)
			if attempt == 2 {
				// unconstrained model: sizes may be huge; check
				for _, c := range rc.small {
					_ = c
				}
			}
			break
		}
	}
	if vals == nil {
		return "", "no model under replay size limits: " + firstLine(lastOut), false
	}
	// normalise keys
	nv := map[string]string{}
	for k, v := range vals {
		nv[normTerm(k)] = v
	}
	g := &goGen{vals: map[string]string{}, arrays: map[string]*garr{}, objs: map[string]string{}, pkg: fn.Pkg.Pkg, imports: map[string]bool{"testing": true, "fmt": true}}
	for _, term := range rc.terms {
		if v, ok := nv[normTerm(term)]; ok {
			g.vals[term] = v
		}
	}
	// sanity: sizes
	for _, term := range rc.terms {
		if x, err := strconv.ParseInt(g.v(term), 10, 64); err == nil && (x > 1<<20) && strings.Contains(term, ".cap") {
			return "", "model needs very large buffers; not replayed", false
		}
	}
	var args []string
	for i, p := range fn.Params {
		_ = p
		args = append(args, g.expr(roots[i]))
	}
	if g.bad != "" {
		return "", "inputs not constructible: " + g.bad, false
	}
	var body strings.Builder
	var anames []string
	for k := range g.arrays {
		anames = append(anames, k)
	}
	sort.Strings(anames)
	for _, k := range anames {
		ga := g.arrays[k]
		if ga.size > 1<<22 {
			return "", "model needs very large buffers; not replayed", false
		}
		fmt.Fprintf(&body, "%s := make([]%s, %d)\n", ga.name, ga.elemT, ga.size)
	}
	// arrays first, then objects (objects reference arrays), then element assignments
	body.WriteString(g.sb.String())
	for _, k := range anames {
		for _, a := range g.arrays[k].asg {
			body.WriteString(a + "\n")
		}
		fmt.Fprintf(&body, "_ = %s\n", g.arrays[k].name)
	}
	for _, gv := range globals {
		fmt.Fprintf(&body, "%s = %s(%s)\n", gv.name, g.typeStr(gv.T), g.v(gv.term))
	}
	// call
	sig := fn.Signature
	var call string
	pn := func(i int) string { return fmt.Sprintf("in%d", i) }
	for i, a := range args {
		fmt.Fprintf(&body, "var %s %s = %s\n_ = %s\n", pn(i), g.typeStr(fn.Params[i].Type()), a, pn(i))
	}
	var cargs []string
	start := 0
	if sig.Recv() != nil {
		start = 1
	}
	for i := start; i < len(args); i++ {
		cargs = append(cargs, pn(i))
	}
	if sig.Recv() != nil {
		call = fmt.Sprintf("%s.%s(%s)", pn(0), fn.Name(), strings.Join(cargs, ", "))
	} else {
		call = fmt.Sprintf("%s(%s)", fn.Name(), strings.Join(cargs, ", "))
	}
	// parameter names for the clause
	var bind strings.Builder
	for i, p := range fn.Params {
		fmt.Fprintf(&bind, "%s := %s\n_ = %s\n", p.Name(), pn(i), p.Name())
	}
	// results
	var rnames []string
	for i := 0; i < sig.Results().Len(); i++ {
		nm := sig.Results().At(i).Name()
		if i < len(t.ct.Results) {
			nm = t.ct.Results[i]
		}
		if nm == "" || nm == "_" {
			nm = fmt.Sprintf("result%d", i)
			if sig.Results().Len() == 1 {
				nm = "result"
			}
		}
		rnames = append(rnames, nm)
	}
	// clause
	clauseGo := ""
	pr := &goPrinter{ok: true}
	if r.Ob.Kind == "post" && r.Ob.Part != nil {
		clauseGo = pr.print(r.Ob.Part, false)
	}
	var src strings.Builder
	fmt.Fprintf(&src, "//go:build verif\n\npackage %s\n\nimport (\n", fn.Pkg.Pkg.Name())
	var imps []string
	for k := range g.imports {
		imps = append(imps, k)
	}
	sort.Strings(imps)
	for _, k := range imps {
		fmt.Fprintf(&src, "\t%q\n", k)
	}
	src.WriteString(")\n")
	src.WriteString(replayHelpers)
	fmt.Fprintf(&src, "\n// Replay of obligation %s (%s) at %s\n// property %s; inputs taken from the solver's counterexample.\nfunc TestVerifReplay(t *testing.T) {\n", r.Ob.Name, r.Ob.Desc, r.Ob.Pos, prop)
	src.WriteString(indent(body.String()))
	src.WriteString(indent(bind.String()))
	for i, o := range pr.olds {
		fmt.Fprintf(&src, "\tvrOld%d := %s\n\t_ = vrOld%d\n", i, o, i)
	}
	src.WriteString("\tpanicked := true\n\tdefer func() {\n\t\tif panicked {\n\t\t\tfmt.Printf(\"REPLAY-PANIC: %v\\n\", recover())\n\t\t}\n\t}()\n")
	if len(rnames) > 0 {
		fmt.Fprintf(&src, "\t%s := %s\n", strings.Join(rnames, ", "), call)
		for _, rn := range rnames {
			fmt.Fprintf(&src, "\t_ = %s\n", rn)
		}
		fmt.Fprintf(&src, "\tfmt.Printf(\"REPLAY-RESULT: %s\\n\", %s)\n", strings.Repeat("%v ", len(rnames)), strings.Join(rnames, ", "))
	} else {
		fmt.Fprintf(&src, "\t%s\n", call)
	}
	if clauseGo != "" && pr.ok {
		fmt.Fprintf(&src, "\tif !(%s) {\n\t\tfmt.Println(\"REPLAY-POST-FALSE\")\n\t} else {\n\t\tfmt.Println(\"REPLAY-POST-TRUE\")\n\t}\n", clauseGo)
	}
	src.WriteString("\tpanicked = false\n}\n")
	gofile = filepath.Join(dir, prop+"_"+name+"_test.go")
	os.WriteFile(gofile, []byte(src.String()), 0o644)
	out, err := runReplayFile(eng, fn.Pkg.Pkg.Path(), gofile)
	log = "replay file: " + gofile + "\n" + out
	if err != nil {
		log += "\n(replay run: " + err.Error() + ")"
	}
	switch {
	case strings.Contains(out, "REPLAY-PANIC"):
		reproduced = safetyKinds[r.Ob.Kind] || r.Ob.Kind == "post"
	case strings.Contains(out, "REPLAY-POST-FALSE"):
		reproduced = true
	}
	if clauseGo != "" && !pr.ok {
		log += "\nclause not executable: " + pr.why
	}
	return gofile, log, reproduced
}

func indent(s string) string {
	var sb strings.Builder
	for _, ln := range strings.Split(strings.TrimRight(s, "\n"), "\n") {
		if ln != "" {
			sb.WriteString("\t" + ln + "\n")
		}
	}
	return sb.String()
}

func firstLine(s string) string {
	return strings.SplitN(strings.TrimSpace(s), "\n", 2)[0]
}

// runReplayFile runs a generated test in its package via -overlay (nothing is written to /repo).
func runReplayFile(eng *Engine, pkgPath, gofile string) (string, error) {
	rel := strings.TrimPrefix(pkgPath, repoMod)
	pkgDir := filepath.Join(eng.repo, rel)
	ov := map[string]map[string]string{"Replace": {filepath.Join(pkgDir, "zz_verif_replay_test.go"): gofile}}
	data, _ := json.Marshal(ov)
	ovf := gofile + ".overlay.json"
	os.WriteFile(ovf, data, 0o644)
	defer os.Remove(ovf)
	cmd := exec.Command("go", "test", "-tags", "verif", "-overlay", ovf, "-vet=off", "-count=1", "-timeout", "60s", "-run", "^TestVerifReplay$", "-v", ".")
	cmd.Dir = pkgDir
	cmd.Env = append(os.Environ(), "GOFLAGS=-mod=mod", "GOPROXY=off", "GOSUMDB=off", "GOTOOLCHAIN=local")
	var buf bytes.Buffer
	cmd.Stdout = &buf
	cmd.Stderr = &buf
	err := cmd.Run()
	out := buf.String()
	if len(out) > 4000 {
		out = out[:4000]
	}
	return out, err
}

func cmdReplay(args []string) int {
	if len(args) < 1 {
		fmt.Fprintln(os.Stderr, "usage: govc replay <file_test.go>")
		return 2
	}
	data, err := os.ReadFile(args[0])
	if err != nil {
		fmt.Fprintln(os.Stderr, err)
		return 2
	}
	if !strings.HasSuffix(args[0], "_test.go") {
		fmt.Print(string(data))
		return 0
	}
	pkg := ""
	for _, ln := range strings.Split(string(data), "\n") {
		if strings.HasPrefix(ln, "package ") {
			pkg = strings.TrimSpace(strings.TrimPrefix(ln, "package "))
			break
		}
	}
	eng := &Engine{repo: "/repo"}
	out, _ := runReplayFile(eng, repoMod+"/"+pkg, args[0])
	fmt.Print(out)
	if strings.Contains(out, "REPLAY-PANIC") || strings.Contains(out, "REPLAY-POST-FALSE") {
		fmt.Println("REPRODUCED")
		return 1
	}
	fmt.Println("NOT-REPRODUCED")
	return 0
}
