#!/usr/bin/env python3
"""Run the repository's test suite with the verif guard OFF and compare with BASELINE.json's stable_pass list."""
import json, subprocess, sys, os
base = json.load(open('/root/.vp/BASELINE.json'))
stable = set(base['stable_pass'])
env = dict(os.environ, GOFLAGS='-mod=mod', GOPROXY='off', GOSUMDB='off', GOTOOLCHAIN='local')
p = subprocess.run(['go', 'test', '-json', '-vet=off', '-count=1', '-p', '1', '-timeout', '25m', './...'], cwd='/repo', env=env, capture_output=True, text=True)
passed = set()
for ln in p.stdout.splitlines():
    try:
        ev = json.loads(ln)
    except Exception:
        continue
    if ev.get('Action') == 'pass' and ev.get('Test') and '/' not in ev['Test']:
        passed.add(ev['Package'] + '::' + ev['Test'])
missing = sorted(stable - passed)
# network-bound tests occasionally fail on a busy port: retry each missing test alone
for m in list(missing):
    pkg, name = m.split('::')
    for _ in range(3):
        r = subprocess.run(['go', 'test', '-vet=off', '-count=1', '-run', '^' + name + '$', pkg], cwd='/repo', env=env, capture_output=True, text=True)
        if r.returncode == 0:
            missing.remove(m)
            passed.add(m)
            break
print('baseline: %d/%d stable tests pass' % (len(stable & passed), len(stable)))
for m in missing:
    print('MISSING', m)
sys.exit(1 if missing else 0)
