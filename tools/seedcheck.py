#!/usr/bin/env python3
"""seedcheck.py <seed dir> <property> <pkg>: confirm a seeded change independently, then run the property check on it.
Steps: scratch worktree of /repo HEAD (outside /repo and /verif, removed afterwards): demo test passes on the clean tree,
patch applies, builds, demo fails with the patch, baseline stable tests still pass; then the patch is applied to /repo,
the check is run, and /repo is restored."""
import json, os, shutil, subprocess, sys, tempfile
seed, prop, pkg = os.path.abspath(sys.argv[1]), sys.argv[2], sys.argv[3]
if subprocess.run(['git', '-C', '/repo', 'status', '--porcelain'], capture_output=True, text=True).stdout.strip():
    sys.exit('seedcheck: /repo has uncommitted changes; commit them first (this tool restores /repo with git checkout)')
env = dict(os.environ, GOFLAGS='-mod=mod', GOPROXY='off', GOSUMDB='off', GOTOOLCHAIN='local')
def sh(cmd, cwd=None, check=False):
    r = subprocess.run(cmd, cwd=cwd, env=env, capture_output=True, text=True, shell=isinstance(cmd, str))
    return r.returncode, (r.stdout + r.stderr)
wt = tempfile.mkdtemp(prefix='seedchk-')
os.rmdir(wt)
res = {'seed': seed, 'property': prop}
try:
    sh(['git', '-C', '/repo', 'worktree', 'add', '-q', '--detach', wt, 'HEAD'])
    demo = os.path.join(seed, 'demo_test.go')
    dst = os.path.join(wt, pkg, 'zz_seed_demo_test.go')
    shutil.copy(demo, dst)
    rc, out = sh(['go', 'test', '-vet=off', '-count=1', '-run', 'TestSeed', './' + pkg + '/'], cwd=wt)
    res['demo_clean_passes'] = rc == 0
    rc, out = sh(['git', 'apply', os.path.join(seed, 'patch.diff')], cwd=wt)
    res['patch_applies'] = rc == 0
    rc, out = sh(['go', 'build', './...'], cwd=wt)
    res['builds'] = rc == 0
    rc, out = sh(['go', 'test', '-vet=off', '-count=1', '-run', 'TestSeed', './' + pkg + '/'], cwd=wt)
    res['demo_patched_fails'] = rc != 0
    res['demo_output'] = out[-600:]
    os.remove(dst)
    # baseline stable tests on the patched tree
    base = json.load(open('/root/.vp/BASELINE.json'))
    stable = set(base['stable_pass'])
    r = subprocess.run(['go', 'test', '-json', '-vet=off', '-count=1', '-p', '1', './auth/...', './message/...', './service/...', './sessions/...', './topics/...'], cwd=wt, env=env, capture_output=True, text=True)
    passed = set()
    for ln in r.stdout.splitlines():
        try:
            ev = json.loads(ln)
        except Exception:
            continue
        if ev.get('Action') == 'pass' and ev.get('Test') and '/' not in ev['Test']:
            passed.add(ev['Package'] + '::' + ev['Test'])
    missing = sorted(stable - passed)
    for m in list(missing):
        p, name = m.split('::')
        rel = './' + p.split('go-mqtt/')[1]
        for _ in range(3):
            rc, _o = sh(['go', 'test', '-vet=off', '-count=1', '-run', '^' + name + '$', rel], cwd=wt)
            if rc == 0:
                missing.remove(m)
                break
    res['baseline_missing'] = missing
finally:
    sh(['git', '-C', '/repo', 'worktree', 'remove', '--force', wt])
    shutil.rmtree(wt, ignore_errors=True)
# now the check on /repo itself
rc, out = sh(['git', '-C', '/repo', 'apply', os.path.join(seed, 'patch.diff')])
try:
    r = subprocess.run(['/verif/tools/check.sh', prop, 'quick'], env=dict(env, VERIF_NOEVIDENCE='1'), capture_output=True, text=True)
    res['check_exit'] = r.returncode
    res['check_failed'] = [l for l in r.stdout.splitlines() if l.startswith('FAILED')][:6]
    res['check_violations'] = [l for l in r.stdout.splitlines() if l.startswith('VIOLATION')][:6]
finally:
    sh(['git', '-C', '/repo', 'checkout', '--', '.'])
    sh(['git', '-C', '/repo', 'clean', '-fdq'])
print(json.dumps(res, indent=1))
