#!/usr/bin/env python3
"""Regenerate /verif/MANIFEST.json from the table below (single source of truth)."""
import json, subprocess
ids = [json.loads(l)['id'] for l in open('/verif/properties.jsonl')]
hook_commits = [l.split()[0] for l in subprocess.run(['git', '-C', '/repo', 'log', '--format=%h %s'], capture_output=True, text=True).stdout.splitlines() if ' verif:' in l]

TRUST = ("Trusted: go/packages+go/types+go/ssa (x/tools v0.29.0), govc's VC generator, z3 5.1.0 / z3 4.8.12 / cvc5 1.0.3; "
         "extern contracts of the standard library (encoding/binary, bytes, fmt, sync/atomic; listed per run in evidence.trusted_base); "
         "slices satisfy off+cap <= 2^56; sizes bounded as stated in the contracts' requires clauses; "
         "separation preconditions (destination buffer disjoint from the message's own buffers) are obligations of callers.")

claimed = {
 'C03': dict(level='proof',
   text=("Contract-based deductive proof on the real code: every Len/Encode/Decode (and the header, length-prefix and packet-id helpers) of all 14 packet types "
         "carries a contract stating the MQTT 3.1.1 wire layout; govc generates verification conditions from go/ssa of the current tree and z3/cvc5 discharge every one, "
         "for all field values, all lengths and any number of topics (ghost offset chains and an axiomatised suffix sum for SUBSCRIBE/UNSUBSCRIBE), and for every value of the packet-id counter. "
         "Full for this property: n == Len(), wire bytes, clean re-encoding = input bytes, decode field values, id != 0."),
   design='DESIGN.md §4 C03', technique='contracts + weakest-precondition VCs over go/ssa, discharged by z3/cvc5 (govc)'),
 'C13': dict(level='proof',
   text=("Contract-based deductive proof of the ack queue: a representation invariant (power-of-two ring, head/tail/count geometry, the id->slot index being exactly the inverse of slot->id on the occupied slots) "
         "is preserved by newAckqueue, Wait, Ack, Acked, insert, removeHead and grow; against the abstract FIFO view: insert appends (or changes nothing on a duplicate id), grow preserves the view and the key set, "
         "Ack changes only the state and ack buffer of the entry with that id (nothing for unknown ids), Acked returns the ping answer followed by the maximal terminal prefix of the view, removes exactly those and leaves the rest in order; "
         "message and ack buffers are fresh allocations whose bytes no queue operation modifies. For all queue sizes, wrap positions and any number of entries (loop invariants, no bound). "
         "What the buffers contain (wire(msg), n == Len()) is the per-type result of C03; at the Message interface it is assumed."),
   design='DESIGN.md §4 C13', technique='contracts + representation invariant + loop invariants, VCs over go/ssa discharged by z3/cvc5 (govc)'),
 'C04': dict(level='proof',
   text=("Contract-based deductive proof: every index, slice (also against len, not only cap: 'strictslice'), nil, conversion and overflow obligation in every Decode path is generated with no annotation and discharged; "
         "contracts add 0<=n<=len(src), every returned field lies within src[:n], loop variants (termination), and acceptance of every well-formed packet (for SUBSCRIBE/UNSUBSCRIBE against a caller-chosen ghost entry chain). Unbounded in input length and topic count."),
   design='DESIGN.md §4 C04', technique='zero-annotation safety VCs + decode contracts over go/ssa, z3/cvc5 (govc)'),
}

na_reason = 'not yet claimed: contracts for this property are still being written (see DESIGN.md §10 status)'
na = {}

checks = []
for pid, c in claimed.items():
    checks.append({
        'property_id': pid,
        'quick_cmd': '/verif/bin/govc check -p %s -tier quick' % pid,
        'thorough_cmd': '/verif/bin/govc check -p %s -tier thorough' % pid,
        'evidence_file': '/verif/evidence/%s.json' % pid,
        'replay_cmd_template': '/verif/bin/govc replay {path}',
        'engine': 'govc',
        'level_claimed': {'category': c['level'], 'text': c['text'], 'design_ref': c['design']},
        'level_note': TRUST,
        'technique': c['technique'],
    })

m = {
 'version': 1,
 'setup_cmd': '/verif/tools/build.sh',
 'hooks': {
   'guard': 'verif',
   'enable': 'contract files /repo/<pkg>/verif_contracts.go are //go:build verif; govc loads /repo with -tags=verif, replays run go test -tags verif',
   'baseline_off_cmd': 'cd /repo && GOFLAGS=-mod=mod GOPROXY=off GOSUMDB=off go test -json -vet=off -count=1 -p 1 -timeout 25m ./...',
   'source_commits': hook_commits,
   'add_only': True,
 },
 'engines': [{'name': 'govc', 'path': '/verif/govc', 'serves_properties': sorted(claimed), 'kind_free_text': 'contract verifier for Go: contracts in //@ comments, VCs from go/ssa, SMT back ends z3-new/z3/cvc5, counterexample replay as in-package go test via -overlay'}],
 'checks': checks,
 'not_applicable': [{'property_id': i, 'reason': na.get(i, na_reason)} for i in ids if i not in claimed],
 'notes': 'Known findings: /verif/known_findings.json. Must-fail corpus: /verif/selftest. Seeded changes from independent sub-agents: /verif/seeded.',
}
json.dump(m, open('/verif/MANIFEST.json', 'w'), indent=1)
print('claimed', sorted(claimed), 'hooks', hook_commits)
