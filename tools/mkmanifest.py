#!/usr/bin/env python3
"""Regenerate /verif/MANIFEST.json from the table below (single source of truth)."""
import json, subprocess
ids = [json.loads(l)['id'] for l in open('/verif/properties.jsonl')]
hook_commits = [l.split()[0] for l in subprocess.run(['git', '-C', '/repo', 'log', '--format=%h %s'], capture_output=True, text=True).stdout.splitlines() if ' verif:' in l]

TRUST = ("Trusted: go/packages+go/types+go/ssa (x/tools v0.29.0), govc's VC generator, z3 5.1.0 / z3 4.8.12 / cvc5 1.0.3; "
         "extern contracts of the standard library (encoding/binary, bytes, fmt, sync/atomic; listed per run in evidence.trusted_base); "
         "slices satisfy off+cap <= 2^56; sizes bounded as stated in the contracts' requires clauses; "
         "separation preconditions (destination buffer disjoint from the message's own buffers) are obligations of static callers; at dynamic calls through the message.Message interface the implementation's preconditions are assumed (the interface postconditions and frame are proved per implementation by refinement wrappers; Len() <= 268435460 is an explicit assumption); "
         "topics.Provider.Retained is proved for the in-memory provider under its object invariant; the other topics.Provider methods and the sessions.Provider / sync.Locker / io / net interface contracts are trusted.")

claimed = {
 'C03': dict(level='proof',
   text=("Contract-based deductive proof on the real code: every Len/Encode/Decode (and the header, length-prefix and packet-id helpers) of all 14 packet types "
         "carries a contract stating the MQTT 3.1.1 wire layout; govc generates verification conditions from go/ssa of the current tree and z3/cvc5 discharge every one, "
         "for all field values, all lengths and any number of topics (ghost offset chains and an axiomatised suffix sum for SUBSCRIBE/UNSUBSCRIBE), and for every value of the packet-id counter. "
         "Full for this property: n == Len(), wire bytes, clean re-encoding = input bytes, decode field values, id != 0."),
   design='DESIGN.md §4 C03', technique='contracts + weakest-precondition VCs over go/ssa, discharged by z3/cvc5 (govc)'),
 'C13': dict(level='proof',
   text=("Contract-based deductive proof of the ack queue: a representation invariant (power-of-two ring, head/tail/count geometry, the id->slot index being exactly the inverse of slot->id on the occupied slots) "
         "is preserved by newAckqueue, Wait, Ack, Acked, insert, removeHead and grow; against the abstract FIFO view: insert appends (or changes nothing on a duplicate id), grow preserves the view and the key set, "
         "Ack changes only the state and ack buffer of the entry with that id (nothing for unknown ids), Acked returns the ping answer followed by the maximal terminal prefix of the view, removes exactly those and leaves the rest in order; "
         "message and ack buffers are fresh allocations whose bytes no queue operation modifies. For all queue sizes, wrap positions and any number of entries (loop invariants, no bound). "
         "What the buffers contain (wire(msg), n == Len()) is the per-type result of C03; at the Message interface it is assumed."),
   design='DESIGN.md §4 C13', technique='contracts + representation invariant + loop invariants, VCs over go/ssa discharged by z3/cvc5 (govc)'),
 'C14': dict(level='proof',
   text=("Contract-based deductive proof under rely/guarantee (single producer, single consumer): every ring-buffer function (cursor get/set, waitForWriteSpace, WriteWait, WriteCommit, Write, ringCopy, ReadPeek, ReadWait, ReadCommit, Read, ReadFrom, WriteTo, Close, Len) is verified sequentially plus interference at every yield point (atomic cursor read, isDone, Lock, Cond.Wait, socket Read/Write), where the other side may have changed exactly what the function's rely clause allows. "
         "Producer side: space is granted only up to gate+size (gate <= consumer cursor), writes touch only the granted region, the cursor advances by exactly what was written, every block handed to the socket reader is the reserved region. "
         "Consumer side, against a ghost stream of all committed bytes: peeked/read/drained bytes are the stream at the consumer cursor in order on both the in-place and the wrap path, the cursor advances by what was consumed and never passes the producer. Unbounded in sizes, positions and iterations. "
         "Assumed (trusted): sequentially consistent atomics, one producer and one consumer at a time, soundness of the rely/guarantee composition (producer guarantee implies consumer rely and vice versa), cursors below 2^61, 64-bit index lemmas proved separately in QF_BV."),
   design='DESIGN.md §4 C14', technique='contracts with rely/guarantee interference + ghost stream, VCs over go/ssa discharged by z3/cvc5 (govc)'),
 'C15': dict(level='proof',
   text=("Contract-based proof of the monitor-discipline premises from which lost-wake-up freedom follows, on every path of every buffer function: (P1) at each Cond.Wait the waited lock is held and the waiter's latest read of its predicate (peer cursor) happened after its latest acquisition of that lock (ghost clock); "
         "(P2) every cursor store and Close is followed by a Broadcast of the right condition under that condition's own lock (ghost wake-up counters; Broadcast requires its lock held); (P3) every function returns holding exactly the locks it entered with (lock balance on all paths, including early returns on a closed buffer); "
         "(P4) no wait for space that can never come (a request larger than the ring fails instead of blocking). The implication P1-P4 => 'no call blocks forever once its condition holds or Close was called' is the classical monitor argument and is NOT machine-checked (core claim only)."),
   design='DESIGN.md §4 C15', technique='ghost-state contracts (held-lock set, ghost clock, wake-up counters) over go/ssa, z3/cvc5 (govc)'),
 'C17': dict(level='proof',
   text=("Contract-based proof for writeMessage (core of the property): all ring operations of a packet write happen while the connection's write mutex is held, and the mutex is held continuously from before the reservation to the commit (ghost clock: no re-acquisition in between); "
         "what is committed is exactly what the message's Encode produced, at exactly the reserved region (in-place path) or exactly the scratch bytes (wrap path), so the ring receives whole encoded packets; on an error before the commit nothing is committed. "
         "That Encode produces a complete well-formed packet of Len() bytes is C03 per type; the interface-level contract writeMessage relies on (0 <= n <= len(dst), frame) is proved for all 14 packet types by refinement wrappers that are part of this check. service.processor has a thin ordering contract (callee preconditions assumed): the bytes of a received packet stay uncommitted in the incoming ring while the packet is processed - what is forwarded from it points into them - and exactly the peeked size is committed afterwards, once per packet. Not covered: per-publisher ordering across goroutines (a schedule property)."),
   design='DESIGN.md §4 C17', technique='contracts with call-site obligations (atcall) and ghost ordering, VCs over go/ssa, z3/cvc5 (govc)'),
 'C02': dict(level='proof',
   text=("Contract-based deductive proof of the per-packet mechanism the property rests on (core; the composition over whole histories is argued in DESIGN.md, not machine-checked). Against a ghost log of the packets a connection sends "
         "(per packet type: count and last identifier, defined at writeMessage) and of the messages it hands on (onPublish): processPublish answers QoS 1 with exactly one PUBACK and QoS 2 with exactly one PUBREC carrying the received identifier "
         "(or a write failed), hands a QoS 0/1 message on exactly once and a QoS 2 message never, and stores the QoS 2 message in the incoming queue; processIncoming answers PUBREL with exactly one PUBCOMP and PUBREC with exactly one PUBREL of the same identifier, "
         "and sends those packets for no other packet type; processAcked, per entry the queue releases (loop step contracts): an entry in state PUBREL is handed on exactly once unless an error is logged, no other entry is ever handed on, and what is handed on "
         "was decoded from exactly the bytes stored for that entry. That the stored bytes are a private copy of the original PUBLISH, that duplicates are not inserted twice and that entries are released once in FIFO order is the ack-queue proof (C13), which is part of this check. "
         "Assumed (listed in evidence): subscriber callbacks send only PUBLISH packets and leave the list being processed and the bytes of the packet being processed alone; interface-level contracts of message.Message; processSubscribe's frame."),
   design='DESIGN.md §4 C02', technique='ghost-log contracts, call-site obligations and per-iteration loop contracts; VCs over go/ssa discharged by z3/cvc5 (govc)'),
 'C12': dict(level='proof',
   text=("Contract-based deductive proof of the sender-side mechanism (core; client API wrappers subscribe/unsubscribe/ping and the composition over schedules are not machine-checked). service.publish writes exactly one PUBLISH and then registers a QoS 1 request in the "
         "QoS 1 queue and a QoS 2 request in the QoS 2 queue with its completion callback (a QoS 0 request completes at once, exactly one callback); processIncoming answers every PUBREC with exactly one PUBREL of the same identifier and sends PUBREL for nothing else; "
         "processAcked, per entry an ack queue releases (per-iteration loop contracts): the entry's completion callback is invoked exactly once unless an error is logged, and only entries in a terminal state are released at all (FIFO release after the last ack, once, is the ack-queue proof C13, part of this check). "
         "Automatically assigned packet identifiers are never 0 (C03 contracts of Encode, part of this check). "
         "KNOWN FINDING KF-C12-1 (open, see known_findings.json): publish registers the request after writing it, so an acknowledgement processed in that window is lost and the completion never fires; the obligation 'registered-before-sent' fails exactly there and is reported as KNOWN-FINDING. "
         "Pairwise distinctness of the identifiers of forwarded PUBLISH packets in flight is not covered (no contract states it)."),
   design='DESIGN.md §4 C12', technique='ghost-log contracts, call-site obligations and per-iteration loop contracts; VCs over go/ssa discharged by z3/cvc5 (govc)'),
 'C19': dict(level='proof',
   text=("Contract-based deductive proof of the two mechanisms the property rests on (core; real time and the behaviour of net.Conn deadlines are outside any contract): the receiver goroutine reads the socket only through a timeoutReader whose "
         "deadline is exactly keep-alive + keep-alive/5 seconds (K <= d <= 1.5 K) and timeoutReader.Read re-arms the read deadline before every single socket read (ghost 'armed' flag consumed by the read), so a client silent for d fails the read; "
         "processIncoming answers every PINGREQ with exactly one PINGRESP (or a write failed) and sends PINGRESP for nothing else. Every function of the repository that arms the socket read deadline must be under contract (a new caller of SetReadDeadline is a binding failure), and handleConnection replaces the CONNECT keep-alive only when it is 0, by the default. Not covered: that the failed read leads to the will being published (teardown, see C09)."),
   design='DESIGN.md §4 C19', technique='ghost-state contracts and call-site obligations; VCs over go/ssa discharged by z3/cvc5 (govc)'),
 'C09': dict(level='proof',
   text=("Contract-based deductive proof of the three mechanisms the property rests on (core; which goroutine reaches teardown and when is a schedule question outside any contract). (1) Session.Init and Session.Update establish the will invariant: whenever the stored CONNECT "
         "has its will flag set, the session's will message is a PUBLISH whose QoS, retain flag, payload and (valid) topic are exactly the will fields of that stored CONNECT - for fresh and resumed sessions alike (Update rebuilds or drops the will; the defect that it kept the previous one was fixed). "
         "(2) processIncoming clears the stored CONNECT's will flag on DISCONNECT and returns errDisconnect, and changes the flag for no other packet type. (3) service.stop hands the will on (onPublish) exactly once iff it is the first call, the service is a server and the will flag is still set, and never otherwise; "
         "on the first call it also deletes a clean session from the store. (4) peekMessageSize reports end-of-stream only when the ring buffer itself reported it, so packets still buffered (a final DISCONNECT) are never skipped. Not covered: that every abnormal end reaches stop."),
   design='DESIGN.md §4 C09', technique='data invariant + ghost-log contracts; VCs over go/ssa discharged by z3/cvc5 (govc)'),
 'C10': dict(level='proof',
   text=("Contract-based deductive proof of the per-call mechanism (core; the composition over connect/disconnect histories is argued, not machine-checked). Against a ghost view of the session store (client identifier -> session): "
         "getSession with CleanSession=1 (or an empty client identifier, which is made clean) answers SessionPresent=0 with a freshly created session stored under that identifier; with CleanSession=0 it answers SessionPresent=1 exactly when the store held a session for that identifier "
         "and then continues with that very session object, otherwise creates a fresh one; in both cases the session carries the will invariant of C09. service.stop deletes the session from the store on the first teardown iff the stored CONNECT was clean, and never otherwise. "
         "The store interface is keyed by the identifier alone (New/Get/Del change the ghost view at that key only - enforced by the frame check), Session.AddTopic/RemoveTopic change exactly one key of the session's subscription map. "
         "Not covered: the re-activation loop in service.start (map iteration is outside the generator's subset), the MemProvider implementation behind the trusted store interface, and that the session stores the granted rather than the requested QoS."),
   design='DESIGN.md §4 C10', technique='ghost-view contracts with frame checking; VCs over go/ssa discharged by z3/cvc5 (govc)'),
 'C06': dict(level='proof',
   text=("Contract-based deductive proof of every function of the topic store by ONE-STEP contracts (core): each function is specified by what it does at its own trie node and by the recursive calls it makes; that these steps compose to the MQTT 4.7 matching relation over whole filters and histories is an induction over the levels that is argued, not machine-checked, and is additionally exercised by a BOUNDED stand-in (labelled bounded, never counted as proved). "
         "Proved for all inputs, all trie shapes and all map contents (map iteration modelled with a ghost set of visited keys; type invariants: every child link leads to a constructed node, subscriber and QoS lists have equal length, result slices never share storage with node lists): "
         "nextTopicLevel splits at the first '/', never returns a level containing '/', rejects '#'/'+' that do not occupy a whole level, accepts '#' only last, refuses a leading '$', and makes progress; "
         "sinsert at the last level replaces the QoS of the first entry equal to the subscriber and changes nothing else, or appends (subscriber, QoS) when there is none - never a second entry - and otherwise descends exactly once into the child for the next level (created if absent) with the remaining levels and the same QoS and subscriber; "
         "sremove at the last level removes all entries (nil) or exactly the first equal entry keeping the order and the QoS of all others, reports a missing entry without changing anything, otherwise descends into the existing child; "
         "matchQos appends every entry of a node in order with min(publish QoS, entry QoS) and touches neither the node nor earlier results; smatch at the last level takes the node's entries and those of its '#' child, otherwise looks at every child exactly once - '#' child: its entries; '+' child and the child named like the level: searched with the remaining levels; any other child: untouched; "
         "rmatch/allRetained likewise for retained messages ('#': everything at or below; '+': every child; literal: that child); the MemTopics methods run these from the root with the request's arguments under the right lock on every path, refuse an invalid QoS or nil subscriber before touching the store, and grant min(requested, MaxQosAllowed). "
         "Subscriber identity (reflection) is an uninterpreted relation. The bounded stand-in runs the real MemTopics exhaustively over filters of 1..3 levels over {a,b,+,#}, topics of 1..3 levels over {a,b}, two or three subscribers, subscribe/unsubscribe/re-subscribe, publish QoS 0..2 and retained insert/replace/clear (about 720000 cases) against the MQTT 4.7 relation. "
         "A known deviation pinned by the repository's own test (an empty first level is returned as '+') is outside the obligations; pruning of empty nodes is checked only by the bounded stand-in."),
   design='DESIGN.md §4 C06', technique='one-step contracts on the recursive trie functions, map type invariants, modelled map iteration, loop invariants; VCs over go/ssa discharged by z3/cvc5 (govc); bounded exhaustive stand-in for the composition'),
 'C01': dict(level='proof',
   text=("Contract-based deductive proof of the fan-out step only (core): onPublish calls every subscriber the topic store returned exactly once, in the store's order (ghost call counter, loop invariant), and at each call the message carries the QoS the store computed for that subscriber whenever that value is a valid QoS; "
         "it counts as one hand-over of exactly that message object. That the store returns exactly the matching subscriptions with min(publish QoS, granted QoS) is the trusted interface contract of the topic store (the trie is outside the generator's subset, see C06); "
         "that a subscription is in the store from SUBACK to UNSUBACK is C07's ordering obligation for UNSUBSCRIBE, and unverified for SUBSCRIBE. Topic and payload are untouched by construction (only the flag byte and header fields are in the frame of onPublish and of the callbacks)."),
   design='DESIGN.md §4 C01', technique='ghost counters, loop invariant and call-site obligations over go/ssa, z3/cvc5 (govc)'),
 'C07': dict(level='proof',
   text=("Contract-based deductive proof of both handlers (core; 'effective for every message accepted after the ack' across connections is argued). processSubscribe (verified since the third session: 884 obligations, three loops one of them nested) hands every filter of the request to the topic store in request order, with the requested QoS and this connection's own callback (ghost log of the store calls), before the SUBACK is written; "
         "writes exactly one SUBACK unless the write fails, with the request's packet identifier and one return code per filter in request order, each being the store's answer for that filter (min(requested, MaxQosAllowed) or 0x80: the store wrapper's contract, also in this check); a rejected filter never produces an error return without SUBACK (a defect found here earlier - fixed). "
         "processUnsubscribe hands every filter to the store, in order, before exactly one UNSUBACK with the request's identifier. SubackMessage.AddReturnCodes appends exactly the given codes in order; the filter lists of SUBSCRIBE/UNSUBSCRIBE decode to exactly the filters on the wire, in order (C03/C04 contracts, part of this check). "
         "A BOUNDED stand-in (labelled bounded, not counted as proved) additionally runs processSubscribe against a scripted store for every request of 1..4 filters over 4 names, QoS 0..2, store maximum 0..2 (67860 cases). Assumed in processSubscribe (listed in evidence): what the store's Retained hands out is clean and separate from this connection's buffers."),
   design='DESIGN.md §4 C07, §13', technique='ghost-log contracts, loop invariants and call-site obligations over go/ssa, z3/cvc5 (govc)'),
 'C11': dict(level='proof',
   text=("Contract-based deductive proof of handleConnection against ghost logs of the CONNACKs written to the connection, of authenticator calls, of started services, of Close calls and of the session store (core; what the accepted connection's goroutines do afterwards is the other properties). "
         "For every first packet: a CONNECT refused while decoding with a CONNACK code gets exactly one CONNACK with exactly that code and SessionPresent=0, any other unreadable first packet gets none; rejected credentials get exactly one CONNACK with code 4; an accepted CONNECT gets exactly one CONNACK with code 0 after the session was obtained and before the service is started; "
         "on every refusal no service is created or started and the session store is untouched (the authenticator is consulted before any session access); every error return closes the connection (deferred function, verified). "
         "ConnectMessage.Decode maps an unsupported protocol level to code 1 and an unacceptable client identifier to code 2 and produces no other code (C03/C04 contracts, part of this check). "
         "auth.Manager.Authenticate asks the configured provider exactly once, with these credentials, and returns its answer (verified; package auth under contract). The CONNACK writer (package-level writeMessage / writeMessageBuffer) is verified (that a socket or encode error is never a CONNACK code is an explicitly assumed postcondition). Assumed: the identifier syntax check (a regular expression) is a trusted contract pinned to its current body; service.start is verified but assumed not to fail here."),
   design='DESIGN.md §4 C11', technique='ghost-log contracts over go/ssa incl. the deferred closure, z3/cvc5 (govc)'),
 'C05': dict(level='proof',
   text=("Contract-based deductive proof of the per-connection input paths (core; that a teardown of one connection does not disturb others is a whole-system statement not covered). For arbitrary bytes from the peer: getMessageBuffer (the unauthenticated read of the first packet) and getConnectMessage, "
         "peekMessageSize and peekMessage (every later packet) and every Decode of all 14 packet types never index or slice out of range, never convert out of range and terminate (zero-annotation safety obligations plus loop invariants); the only allocation whose size the peer chooses is bounded by the largest MQTT packet "
         "(a defect found here - a fifth length byte let an unauthenticated peer request a 32 GiB buffer - was fixed); announced packet sizes are within 2..268435460; oversized requests to the ring fail instead of blocking (C15). "
         "Panics elsewhere are confined by the recover of the connection's own goroutines (not verified). Assumed: net.Conn.Read returns 0..len bytes."),
   design='DESIGN.md §4 C05', technique='zero-annotation safety VCs + allocation bound + loop invariants over go/ssa, z3/cvc5 (govc)'),
 'C08': dict(level='proof',
   text=("Contract-based deductive proof of the mechanisms the property rests on (core; the composition over publish/subscribe histories and schedules is argued, not machine-checked). "
         "(1) onPublish and Server.Publish pass a PUBLISH to the retained store exactly when its retain flag is set (ghost log of Retain calls). (2) MemTopics.Retain, under the store's lock on every path, clears the topic when the payload is empty and stores the message otherwise. "
         "(3) rnode.rinsert, at the node of the topic, stores a NEW message object decoded over a NEW buffer holding the message's encoding, with flags, topic and payload byte-identical to the published message (encode/decode round trip proved with the C03 wire contracts), and writes nothing that existed before the call - so message objects "
         "handed out by earlier lookups keep their content whatever is retained later (a defect found here: the old object and buffer were rewritten in place - fixed); a failed insert keeps the previous message; rremove drops the node's message; both descend with exactly the remaining levels into the child for the next level (one-step contracts). "
         "(4) PublishMessage.Clone (the QoS-downgraded copy sent to a new subscription) is a fresh object over a fresh buffer with identical flags, topic and payload, and leaves the stored message untouched. "
         "(5) The broker-side subscriber callback (onpub closure) forwards with the retain flag cleared and restores the flag of the shared message afterwards. "
         "(7) The lookup side (rmatch, allRetained, MemTopics.Retained; map iteration modelled): everything appended to the result is a stored, non-nil PUBLISH object, the entries already in the list are untouched, and every child is visited as the one-step contracts say; the interface contract the handlers assume for Retained is proved from this by a refinement wrapper under the provider's object invariant. NOT machine-checked: that exactly the matching topics are selected (the induction over levels) and that unrelated trie nodes are untouched by a recursive insert - covered by the BOUNDED stand-in shared with C06 (labelled bounded, never counted as proved: retained insert/replace/clear for every pair of topics against every filter of 1..3 levels); "
         "(6) processSubscribe (verified, see C07): a retained message whose QoS exceeds the granted QoS is replaced by a fresh clone with the granted QoS - SetQoS is only ever applied to a fresh object, never to the stored one - and all collected messages are sent after the SUBACK."),
   design='DESIGN.md §4 C08', technique='contracts (one-step contracts on the recursive trie functions, map type invariant, ghost log, frame checking) with VCs over go/ssa discharged by z3/cvc5 (govc); bounded exhaustive stand-in for the trie lookups'),
 'C20': dict(level='proof',
   text=("Contract-based deductive proof of the client-side mechanisms (core; the composition over subscribe / unsubscribe / PUBLISH histories is argued, not machine-checked). Client.Connect and ConnectTLS, against ghost logs of dials, of CONNACK packets read and decoded, of started services and of Close calls: they return nil exactly when a CONNACK with return code 0 was read and then start the connection's goroutines exactly once; "
         "a CONNACK with any other code makes them return exactly that code as the error, and an error of type ConnackCode never has another origin; on every error nothing is started and the dialled connection is closed exactly once (deferred function verified), on success it is left open. "
         "The completion function registered for a SUBSCRIBE (run when the SUBACK arrives) registers, for every filter in request order, the application's callback in the client-local topic tree for exactly that filter with exactly the granted QoS when the return code is not 0x80, and nothing for 0x80 (per-iteration loop contracts over a ghost log of store calls); "
         "an error, a foreign packet, differing identifiers or a differing number of return codes register nothing. The completion function for an UNSUBSCRIBE removes every filter of the request, in order, for all subscribers, or nothing at all. subscribe/unsubscribe/ping write exactly one packet of their type and register the request with its completion function; Subscribe without a message callback is refused before anything is sent. "
         "Inbound dispatch is the fan-out (C01), QoS handling and duplicate suppression (C02/C13) on the same code, part of this check. NOT machine-checked: that the client-local tree matches filters correctly (C06: bounded), goroutine exit, that start does not fail (assumed)."),
   design='DESIGN.md §4 C20', technique='ghost-log contracts, call-site obligations and per-iteration loop contracts incl. closures and deferred functions; VCs over go/ssa discharged by z3/cvc5 (govc)'),
 'C04': dict(level='proof',
   text=("Contract-based deductive proof: every index, slice (also against len, not only cap: 'strictslice'), nil, conversion and overflow obligation in every Decode path is generated with no annotation and discharged; "
         "contracts add 0<=n<=len(src), every returned field lies within src[:n], loop variants (termination), and acceptance of every well-formed packet (for SUBSCRIBE/UNSUBSCRIBE against a caller-chosen ghost entry chain). Unbounded in input length and topic count."),
   design='DESIGN.md §4 C04', technique='zero-annotation safety VCs + decode contracts over go/ssa, z3/cvc5 (govc)'),
}

na_reason = 'not yet claimed: contracts for this property are still being written (see DESIGN.md §10 status)'
na = {
 'C16': "not applicable to contract-based deductive verification: bounded-time teardown and goroutine exit are liveness statements over all schedules of at least four goroutines per connection; no pre/postcondition of a function states them. The safety premises they rest on (lock balance on every path, Close wakes both sides, no wait that can never end) are proved under C15, and teardown's single-shot behaviour under C09.",
 'C18': "not applicable to contract-based deductive verification: data-race freedom is a happens-before property of every pair of accesses in every schedule; a function contract cannot quantify over what other goroutines do. Related per-function facts are proved elsewhere (the write mutex discipline under C17, lock balance under C15, the ack queue's operations under its mutex under C13).",
}

checks = []
for pid, c in claimed.items():
    checks.append({
        'property_id': pid,
        'quick_cmd': '/verif/tools/check.sh %s quick' % pid,
        'thorough_cmd': '/verif/tools/thorough.sh %s' % pid,
        'evidence_file': '/verif/evidence/%s.json' % pid,
        'replay_cmd_template': '/verif/bin/govc replay {path}',
        'engine': 'govc',
        'level_claimed': {'category': c['level'], 'text': c['text'], 'design_ref': c['design']},
        'level_note': TRUST,
        'technique': c['technique'],
    })

m = {
 'version': 1,
 'setup_cmd': '/verif/tools/build.sh',
 'hooks': {
   'guard': 'verif',
   'enable': 'contract files /repo/<pkg>/verif_contracts.go are //go:build verif; govc loads /repo with -tags=verif, replays run go test -tags verif',
   'baseline_off_cmd': 'cd /repo && GOFLAGS=-mod=mod GOPROXY=off GOSUMDB=off go test -json -vet=off -count=1 -p 1 -timeout 25m ./...',
   'source_commits': hook_commits,
   'add_only': True,
 },
 'engines': [{'name': 'govc', 'path': '/verif/govc', 'serves_properties': sorted(claimed), 'kind_free_text': 'contract verifier for Go: contracts in //@ comments, VCs from go/ssa, SMT back ends z3-new/z3/cvc5, counterexample replay as in-package go test via -overlay'}],
 'checks': checks,
 'not_applicable': [{'property_id': i, 'reason': na.get(i, na_reason)} for i in ids if i not in claimed],
 'notes': 'Known findings: /verif/known_findings.json. Must-fail corpus: /verif/selftest. Seeded changes from independent sub-agents: /verif/seeded.',
}
json.dump(m, open('/verif/MANIFEST.json', 'w'), indent=1)
print('claimed', sorted(claimed), 'hooks', hook_commits)
