#!/bin/sh
# check.sh <property> <tier>: the deductive check (govc) followed by the property's bounded stand-in, if it has one.
# exit 0: held on everything explored; exit 1: VIOLATION lines were printed.
id="$1"; tier="${2:-quick}"
export GOFLAGS=-mod=mod GOPROXY=off GOSUMDB=off GOTOOLCHAIN=local
EV=""; if [ -n "$VERIF_NOEVIDENCE" ]; then EV="-noevidence"; fi
/verif/bin/govc check -p "$id" -tier "$tier" $EV
rc=$?
if [ $rc -gt 1 ]; then exit $rc; fi
python3 /verif/tools/bounded.py "$id" "$tier"
rc2=$?
if [ $rc -ne 0 ] || [ $rc2 -ne 0 ]; then exit 1; fi
exit 0
