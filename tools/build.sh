#!/bin/sh
# Build govc offline.
set -e
export GOFLAGS=-mod=mod GOPROXY=off GOSUMDB=off GOTOOLCHAIN=local
cd /verif/govc
mkdir -p /verif/bin
go build -o /verif/bin/govc .
