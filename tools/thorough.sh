#!/bin/sh
# thorough tier of one property:
#  1. every obligation must be discharged with all three solvers agreeing (govc -tier thorough, 60 s per query);
#  2. the must-fail corpus of that property: every hand-written breaking change (applied to a scratch copy
#     under the system temp dir, removed afterwards) must be reported as a violation;
#  2a. vacuity guard (tools/deadcheck.py);
#  3. for properties whose contracts use the 64-bit `&` lemmas: the lemmas are re-proved in QF_BV.
# exit 0: held; exit 1 + VIOLATION line: an obligation failed; exit 2: the machinery itself failed its self-test.
id="$1"
export GOFLAGS=-mod=mod GOPROXY=off GOSUMDB=off GOTOOLCHAIN=local
/verif/bin/govc check -p "$id" -tier thorough
rc=$?
if [ $rc -ne 0 ]; then exit $rc; fi
python3 /verif/tools/bounded.py "$id" thorough || exit 1
#  2a. vacuity guard: no return of any function in the closure may be unreachable under the assumptions, except the
#      reviewed, genuinely dead error branches (selftest/dead_returns_reviewed.txt)
python3 /verif/tools/deadcheck.py "$id"
if [ $? -ne 0 ]; then echo "VACUITY-GUARD-FAILED property=$id: a return is unreachable under the assumed contracts and is not on the reviewed list (machinery defect, not a property verdict)"; exit 2; fi
python3 /verif/selftest/run.py -p "$id" -j 3
if [ $? -ne 0 ]; then echo "SELFTEST-FAILED property=$id: a must-fail mutant was not reported (machinery defect, not a property verdict)"; exit 2; fi
case "$id" in
C13|C14|C15|C17)
  out=$(z3-new -T:900 /verif/lemmas/band64.smt2 2>&1)
  n_unsat=$(printf '%s\n' "$out" | grep -c '^unsat$')
  n_other=$(printf '%s\n' "$out" | grep -vc '^unsat$')
  echo "lemmas/band64.smt2: $n_unsat unsat, $n_other other"
  if [ "$n_other" -ne 0 ] || [ "$n_unsat" -eq 0 ]; then echo "LEMMA-FAILED property=$id: a bit-vector lemma assumed by the integer encoding did not re-prove"; exit 2; fi
  ;;
esac
exit 0
