#!/usr/bin/env python3
"""deadcheck.py <property>: vacuity guard of the thorough tier. Every return of every function in the property's
closure is checked for reachability under the assumptions (govc -covers); a function with more DEAD returns than the
reviewed list /verif/selftest/dead_returns_reviewed.txt allows (genuinely unreachable error branches, each inspected,
see DESIGN.md section 13) means some contract or the engine made a path contradictory: everything proved after that
point would be vacuous. Exit 0: as reviewed; exit 2: unreviewed dead return (a defect of the machinery, not a verdict
about the property)."""
import subprocess, sys, collections, os
prop = sys.argv[1]
env = dict(os.environ, GOFLAGS='-mod=mod', GOPROXY='off', GOSUMDB='off', GOTOOLCHAIN='local')
allowed = {}
for ln in open('/verif/selftest/dead_returns_reviewed.txt'):
    f = ln.split()
    if len(f) == 2:
        allowed[f[0]] = int(f[1])
r = subprocess.run(['/verif/bin/govc', 'check', '-p', prop, '-covers', '-noevidence', '-noreplay', '-ob', 'NO-SUCH-OBLIGATION'], env=env, capture_output=True, text=True)
dead = collections.Counter()
nret = 0
for ln in r.stdout.splitlines():
    if ln.startswith('RETURN '):
        nret += 1
        if 'DEAD' in ln:
            dead[ln.split()[1]] += 1
bad = {f: n for f, n in dead.items() if n > allowed.get(f, 0)}
print('deadcheck: property=%s returns=%d dead=%d unreviewed=%d' % (prop, nret, sum(dead.values()), len(bad)))
for f, n in sorted(bad.items()):
    print('UNREVIEWED-DEAD-RETURN %s: %d dead returns (reviewed: %d)' % (f, n, allowed.get(f, 0)))
sys.exit(2 if bad or nret == 0 else 0)
