#!/usr/bin/env python3
"""bounded.py <property> <tier>: run the bounded stand-in harness of a property against the real code and merge what it
covered into /verif/evidence/<property>.json under coverage.bounded (label: bounded - never counted as proved).
The harness is a Go test in /verif/bounded/, injected into the package with `go test -overlay` (nothing is written to
/repo). Known findings (known_findings.json entries with a 'bounded_match' substring) are reported as KNOWN-FINDING;
any other mismatch is a VIOLATION with a replay file naming the failing case."""
import json, os, subprocess, sys, tempfile, time, shutil
H = {
 'C07': dict(pkg='service', file='/verif/bounded/c07_test.go', test='TestBoundedC07',
             rule='exhaustive: 1..4 filters per SUBSCRIBE, each from {a, b, a/+, x#y (rejected by the scripted store)}, requested QoS 0..2 each, store maximum QoS 0..2; real processSubscribe, real SUBSCRIBE decode, real outgoing ring, SUBACK decoded and compared (id, one code per filter in request order, 0x80 for the rejected filter, min(requested, max) otherwise; store asked once per filter in order); non-trivial = more than one filter or a rejected filter',
             what='processSubscribe (under a trusted contract in the deductive check)'),
 'C06': dict(pkg='topics', file='/verif/bounded/c06_test.go', test='TestBoundedC06',
             rule='exhaustive: filters of 1..3 levels over {a,b,+,#} (# only last; 52 filters), topics of 1..3 levels over {a,b} (14), two subscribers with every pair of filters at three QoS shapes, publish QoS 0..2, before and after unsubscribing the first; three subscribers on one filter with removal of each; re-subscription with another QoS; retained messages for every pair of topics against every filter with replacement and clearing; every filter followed by invalid filters built on its prefixes (refused, matching unchanged); filters passed in a buffer overwritten after the call; oracle = MQTT 3.1.1 section 4.7 matching with min(publish QoS, granted QoS); non-trivial = at least one expected receiver / retained message', what='subscription and retained tries of MemTopics (sinsert, sremove, smatch, matchQos, rinsert, rremove, rmatch, allRetained)'),
}
H['C08'] = dict(H['C06'], what='retained trie of MemTopics (rinsert, rremove, rmatch, allRetained): lookups and the effect of insert/clear on other topics')
pid, tier = sys.argv[1], (sys.argv[2] if len(sys.argv) > 2 else 'quick')
REPO = os.environ.get('VERIF_REPO', '/repo')  # the must-fail corpus points this at a scratch copy
NOEV = os.environ.get('VERIF_NOEVIDENCE', '') != ''
h = H.get(pid)
if not h or not os.path.exists(h['file']):
    sys.exit(0)
env = dict(os.environ, GOFLAGS='-mod=mod', GOPROXY='off', GOSUMDB='off', GOTOOLCHAIN='local', VERIF_TIER=tier)
d = tempfile.mkdtemp(prefix='govc-bounded-')
try:
    ov = os.path.join(d, 'ov.json')
    json.dump({'Replace': {'%s/%s/zz_bounded_test.go' % (REPO, h['pkg']): h['file']}}, open(ov, 'w'))
    t0 = time.time()
    r = subprocess.run(['go', 'test', '-overlay', ov, '-vet=off', '-count=1', '-timeout', '900s', '-v', '-run', '^' + h['test'] + '$', './' + h['pkg'] + '/'],
                       cwd=REPO, env=env, capture_output=True, text=True)
    wall = time.time() - t0
finally:
    shutil.rmtree(d, ignore_errors=True)
out = r.stdout + r.stderr
cases = nontriv = 0
samples, viols = [], []
for ln in out.splitlines():
    ln = ln.strip()
    if ln.startswith('BOUNDED-CASES'): cases = int(ln.split()[1])
    elif ln.startswith('BOUNDED-NONTRIVIAL'): nontriv = int(ln.split()[1])
    elif ln.startswith('BOUNDED-SAMPLE'): samples.append(ln[len('BOUNDED-SAMPLE '):])
    elif ln.startswith('BOUNDED-VIOLATION'): viols.append(ln[len('BOUNDED-VIOLATION '):])
known = json.load(open('/verif/known_findings.json')).get('findings', [])
rc = 0
os.makedirs('/verif/replays', exist_ok=True)
reported = set()
nviol = 0
if cases == 0 and not viols:
    # the harness did not run to completion (build failure, panic): that is a failed check, not a pass
    p = '/verif/replays/%s_bounded_harness.txt' % pid
    open(p, 'w').write('bounded harness of %s did not complete\n\n%s' % (pid, out[-4000:]))
    print('VIOLATION property=%s replay=%s bounded-harness-did-not-complete no-failing-input-found' % (pid, p))
    rc = 1
for i, v in enumerate(viols):
    kf = next((k for k in known if k.get('status') == 'open' and k.get('property') == pid and k.get('bounded_match') and k['bounded_match'] in v), None)
    if kf:
        if kf['id'] not in reported:
            print('KNOWN-FINDING: property=%s %s: %s' % (pid, kf['id'], kf['what']))
            reported.add(kf['id'])
        continue
    nviol += 1
    if nviol <= 5:
        p = '/verif/replays/%s_bounded_%d.txt' % (pid, nviol)
        open(p, 'w').write('property: %s\nbounded stand-in for: %s\nfailing case: %s\nreplay: run /verif/tools/bounded.py %s (the case is enumerated deterministically)\n' % (pid, h['what'], v, pid))
        print('VIOLATION property=%s replay=%s bounded-case: %s' % (pid, p, v[:200]))
    rc = 1
evf = '/verif/evidence/%s.json' % pid
if os.path.exists(evf) and not NOEV:
    ev = json.load(open(evf))
    ev['coverage']['bounded'] = {'label': 'bounded (never counted as proved)', 'stands_in_for': h['what'], 'engine': 'go test -overlay on the real code',
                                 'evaluations': cases, 'distinct_nontrivial': nontriv, 'exhaustive': True, 'rule': h['rule'],
                                 'samples': samples[:5], 'violations': nviol, 'known_findings_seen': sorted(reported), 'wall_s': round(wall, 1)}
    if nviol:
        ev['violations'] = ev.get('violations', 0) + nviol
    json.dump(ev, open(evf, 'w'), indent=1)
print('bounded: property=%s cases=%d nontrivial=%d violations=%d known=%d wall=%.1fs' % (pid, cases, nontriv, nviol, len(reported), wall))
sys.exit(rc)
