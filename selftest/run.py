#!/usr/bin/env python3
"""Must-fail corpus: apply each mutant to a scratch copy of /repo (outside /repo and /verif, removed
afterwards), check it still compiles, and require that the property check fails on the expected function.
usage: run.py [-p C03] [-k substring] [--tests]"""
import json, os, shutil, subprocess, sys, tempfile, argparse
ap = argparse.ArgumentParser()
ap.add_argument('-p', default='')
ap.add_argument('-k', default='')
ap.add_argument('--tests', action='store_true', help='also run the baseline test suite on the mutant')
ap.add_argument('-j', type=int, default=2)
args = ap.parse_args()
env = dict(os.environ, GOFLAGS='-mod=mod', GOPROXY='off', GOSUMDB='off', GOTOOLCHAIN='local')
muts = json.load(open('/verif/selftest/mutants.json'))
muts = [m for m in muts if (not args.p or m['property'] == args.p) and args.k in m['id']]
bad = 0
def run_one(m):
    d = tempfile.mkdtemp(prefix='govc-mut-')
    try:
        repo = os.path.join(d, 'repo')
        shutil.copytree('/repo', repo, ignore=shutil.ignore_patterns('.git'))
        f = os.path.join(repo, m['file'])
        s = open(f).read()
        if s.count(m['old']) != 1:
            return m['id'], 'STALE', 'pattern occurs %d times in %s' % (s.count(m['old']), m['file'])
        open(f, 'w').write(s.replace(m['old'], m['new']))
        b = subprocess.run(['go', 'build', './...'], cwd=repo, env=env, capture_output=True, text=True)
        if b.returncode != 0:
            return m['id'], 'NOCOMPILE', b.stderr[-300:]
        if args.tests:
            t = subprocess.run(['go', 'test', '-vet=off', '-count=1', './message/', './sessions/', './topics/'], cwd=repo, env=env, capture_output=True, text=True)
            # the always-failing baseline tests are tolerated; report only as information
        r = subprocess.run(['/verif/bin/govc', 'check', '-repo', repo, '-p', m['property'], '-noevidence', '-noreplay'], env=env, capture_output=True, text=True)
        failed = [l for l in r.stdout.splitlines() if l.startswith('FAILED')]
        hit = [l for l in failed if m['expect'] in l]
        if r.returncode == 1 and hit:
            return m['id'], 'CAUGHT', hit[0][:160]
        if r.returncode == 1:
            return m['id'], 'CAUGHT-ELSEWHERE', (failed[0] if failed else '')[:160]
        if r.returncode == 0:
            # the property's bounded stand-in (if any) runs after the deductive check, as in tools/check.sh
            b = subprocess.run(['python3', '/verif/tools/bounded.py', m['property'], 'quick'], env=dict(env, VERIF_REPO=repo, VERIF_NOEVIDENCE='1'), capture_output=True, text=True)
            bv = [l for l in b.stdout.splitlines() if l.startswith('VIOLATION')]
            if b.returncode == 1 and bv:
                if m['expect'] == 'bounded' or m['expect'] in bv[0]:
                    return m['id'], 'CAUGHT', bv[0][:160]
                return m['id'], 'CAUGHT-ELSEWHERE', bv[0][:160]
        return m['id'], 'MISSED', 'exit %d: %s' % (r.returncode, r.stdout[-300:])
    finally:
        shutil.rmtree(d, ignore_errors=True)
from concurrent.futures import ThreadPoolExecutor
with ThreadPoolExecutor(max_workers=args.j) as ex:
    for mid, status, info in ex.map(run_one, muts):
        print('%-28s %-16s %s' % (mid, status, info))
        if status not in ('CAUGHT',):
            bad += 1
print('selftest: %d mutants, %d not caught as expected' % (len(muts), bad))
sys.exit(1 if bad else 0)
