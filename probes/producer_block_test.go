package service

import (
	"testing"
	"time"
)

func within(t *testing.T, d time.Duration, what string, f func()) bool {
	done := make(chan struct{})
	go func() { f(); close(done) }()
	select {
	case <-done:
		return true
	case <-time.After(d):
		t.Errorf("%s: still blocked after %v", what, d)
		return false
	}
}

func TestProbeOversizeWrite(t *testing.T) {
	bf, _ := newBuffer(16384)
	within(t, time.Second, "Write of size+1 bytes", func() { bf.Write(make([]byte, 16385)) })
}

func TestProbeLockLeakProducer(t *testing.T) {
	bf, _ := newBuffer(16384)
	bf.Write(make([]byte, 16384)) // full
	started := make(chan struct{})
	ret := make(chan struct{})
	go func() { close(started); bf.Write(make([]byte, 10)); close(ret) }()
	<-started
	time.Sleep(100 * time.Millisecond) // writer is now waiting for space
	bf.Close()
	<-ret // writer returned io.EOF
	// consumer side: commit what is there; must not block
	within(t, time.Second, "ReadCommit after a writer was released by Close", func() { bf.ReadCommit(1) })
}
