package service

import (
	"testing"
	"time"
)

var probeHook = func(string) {}

// Forced interleaving: the reader has checked isDone (false) under ccond.L and is about to Wait; Close runs completely
// in that window. With Close broadcasting ccond without ccond.L nothing stops it, its wake-up is lost and the reader
// sleeps although the buffer is closed.
func TestProbeCloseWindow(t *testing.T) {
	bf, _ := newBuffer(16384)
	atWait := make(chan struct{})
	closed := make(chan struct{})
	first := true
	probeHook = func(string) {
		if first {
			first = false
			close(atWait)
			select {
			case <-closed: // Close completed while we are between the check and Wait
			case <-time.After(300 * time.Millisecond): // Close is (correctly) blocked on ccond.L: go on and wait
			}
		}
	}
	done := make(chan struct{})
	go func() { bf.ReadWait(1); close(done) }()
	<-atWait
	go func() { bf.Close(); close(closed) }()
	select {
	case <-done:
	case <-time.After(2 * time.Second):
		t.Fatal("ReadWait still blocked 2s after Close: the wake-up of Close was lost")
	}
}
