package topics

import "testing"

// C06: nextTopicLevel accepts a level that contains a wildcard followed by '$' ("+$", "#$x"): the '$' case resets the
// scanner state without checking that a wildcard must occupy the whole level (obligation nextTopicLevel/inv-preserve
// loop1.nowild, and post wild-alone once the invariant is dropped).
func TestProbeWildcardDollar(t *testing.T) {
	for _, f := range []string{"+$", "#$x", "+$/a"} {
		level, _, err := nextTopicLevel([]byte(f))
		if err == nil {
			t.Errorf("filter %q: level %q accepted although the wildcard does not occupy the whole level", f, level)
		}
	}
}
