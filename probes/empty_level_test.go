package topics

// Probe for known finding KF-C06-1 (open): an empty first topic level is turned into the single-level wildcard.
// MQTT 3.1.1 section 4.7.3: "/finance" has two levels, "" and "finance", and matches neither "x/finance" nor is it
// matched by anything but "/finance", "+/finance", "/+", "+/+", "#", "/#". nextTopicLevel returns "+" for the empty
// first level (pinned by the repository's own TestNextTopicLevelSuccess, so it cannot be repaired without editing
// that test), hence a subscription to "/finance" receives messages published to "x/finance", and a trailing "/" is
// dropped ("a/" is treated as "a").
// Run: go test -overlay <ov.json mapping topics/zz_probe_test.go to this file> -vet=off -run TestProbeEmptyLevel ./topics/

import "testing"

func TestProbeEmptyLevel(t *testing.T) {
	mt := NewMemProvider()
	type sub struct{ n string }
	s1 := &sub{"s1"}
	if _, err := mt.Subscribe([]byte("/finance"), 1, s1); err != nil {
		t.Fatal(err)
	}
	var subs []interface{}
	var qoss []byte
	if err := mt.Subscribers([]byte("x/finance"), 1, &subs, &qoss); err != nil {
		t.Fatal(err)
	}
	if len(subs) != 0 {
		t.Errorf("filter \"/finance\" matched topic \"x/finance\" (empty first level treated as '+')")
	}
	s2 := &sub{"s2"}
	mt2 := NewMemProvider()
	mt2.Subscribe([]byte("a/"), 1, s2)
	subs, qoss = subs[:0], qoss[:0]
	mt2.Subscribers([]byte("a"), 1, &subs, &qoss)
	if len(subs) != 0 {
		t.Errorf("filter \"a/\" matched topic \"a\" (trailing empty level dropped)")
	}
}
