package service

import (
	"testing"
	"time"
)

func withinD(t *testing.T, d time.Duration, what string, f func()) {
	done := make(chan struct{})
	go func() { f(); close(done) }()
	select {
	case <-done:
	case <-time.After(d):
		t.Errorf("%s: still blocked after %v", what, d)
	}
}

// A reader released by Close must not keep the consumer lock.
func TestProbeLockLeakReadWait(t *testing.T) {
	bf, _ := newBuffer(16384)
	bf.Close()
	if _, err := bf.ReadWait(1); err == nil {
		t.Fatal("expected EOF")
	}
	withinD(t, time.Second, "second ReadWait after Close", func() { bf.ReadWait(1) })
}
func TestProbeLockLeakReadPeek(t *testing.T) {
	bf, _ := newBuffer(16384)
	bf.Close()
	if _, err := bf.ReadPeek(1); err == nil {
		t.Fatal("expected EOF")
	}
	withinD(t, time.Second, "second ReadPeek after Close", func() { bf.ReadPeek(1) })
}
func TestProbeLockLeakRead(t *testing.T) {
	bf, _ := newBuffer(16384)
	ret := make(chan struct{})
	go func() { bf.Read(make([]byte, 1)); close(ret) }()
	time.Sleep(100 * time.Millisecond)
	bf.Close()
	<-ret
	withinD(t, time.Second, "ReadWait after a Read was released by Close", func() { bf.ReadWait(1) })
}
