package service

import (
	"sync/atomic"
	"testing"
	"time"

	"github.com/mdzio/go-mqtt/message"
	"github.com/mdzio/go-mqtt/sessions"
)

// C12 known finding KF-C12-1: service.publish writes the request first and registers it in the ack queue afterwards.
// A peer that acknowledges fast enough is processed before the registration: Ack finds no entry, the completion
// callback never fires and the late-registered entry blocks the head of the FIFO for good.
// The "peer" here is a goroutine that watches the outgoing ring and runs the real ack path (Ack + Acked) as soon as
// the PUBLISH bytes are there - exactly what the processor goroutine does when the PUBACK arrives.
func TestProbeRegisterAfterSend(t *testing.T) {
	deadline := time.Now().Add(30 * time.Second)
	for iter := 0; time.Now().Before(deadline); iter++ {
		svc := &service{}
		svc.out, _ = newBuffer(16384)
		svc.sess = &sessions.Session{}
		cm := message.NewConnectMessage()
		cm.SetClientID([]byte("probe"))
		cm.SetVersion(4)
		if err := svc.sess.Init(cm); err != nil {
			t.Fatal(err)
		}
		msg := message.NewPublishMessage()
		msg.SetTopic([]byte("a/b"))
		msg.SetPayload([]byte("x"))
		msg.SetQoS(1)
		msg.SetPacketID(7)
		var completed int32
		acked := make(chan struct{})
		go func() {
			for svc.out.Len() == 0 {
			}
			ack := message.NewPubackMessage()
			ack.SetPacketID(7)
			svc.sess.Pub1ack.Ack(ack)
			for range svc.sess.Pub1ack.Acked() {
				atomic.AddInt32(&completed, 1)
			}
			close(acked)
		}()
		if err := svc.publish(msg, func(m, a message.Message, e error) error { return nil }); err != nil {
			t.Fatal(err)
		}
		<-acked
		if atomic.LoadInt32(&completed) == 0 {
			// the PUBACK was processed before the request was registered: it is lost; a second look does not help
			time.Sleep(10 * time.Millisecond)
			if n := len(svc.sess.Pub1ack.Acked()); n != 0 {
				t.Fatalf("unexpected late release")
			}
			t.Fatalf("iteration %d: PUBACK for id 7 processed before publish() registered the request: the request stays unacknowledged forever", iter)
		}
	}
}
