package topics

// Probe for the defect fixed by "fix: a retained message handed out by a lookup no longer changes when the topic's
// retained message is replaced" (C08): before the fix rinsert re-encoded the new message into the node's existing
// buffer and re-decoded the existing message object over it, so a *PublishMessage obtained from Retained (as
// processSubscribe does before it sends the retained messages, after the store's lock is released) changed its
// payload under its holder.
// Run: go test -overlay <ov.json mapping topics/zz_probe_test.go to this file> -vet=off -run TestProbeRetainedHandout ./topics/

import (
	"testing"

	"github.com/mdzio/go-mqtt/message"
)

func TestProbeRetainedHandout(t *testing.T) {
	mt := NewMemProvider()
	mk := func(p string) *message.PublishMessage {
		m := message.NewPublishMessage()
		m.SetTopic([]byte("a/b"))
		m.SetPayload([]byte(p))
		m.SetRetain(true)
		return m
	}
	if err := mt.Retain(mk("first")); err != nil {
		t.Fatal(err)
	}
	var msgs []*message.PublishMessage
	if err := mt.Retained([]byte("a/b"), &msgs); err != nil || len(msgs) != 1 {
		t.Fatalf("retained: %v %d", err, len(msgs))
	}
	held := msgs[0] // what a new subscriber is about to be sent
	if err := mt.Retain(mk("XXXXX")); err != nil {
		t.Fatal(err)
	}
	if string(held.Payload()) != "first" {
		t.Fatalf("retained message handed out earlier changed under its holder: payload %q, want %q", held.Payload(), "first")
	}
}
