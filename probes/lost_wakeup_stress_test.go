package service

import (
	"testing"
	"time"
)

// Lost wake-up: ReadWait reads the producer cursor before taking the lock it waits under.
func TestProbeLostWakeup(t *testing.T) {
	deadline := time.Now().Add(20 * time.Second)
	for iter := 0; time.Now().Before(deadline); iter++ {
		bf, _ := newBuffer(16384)
		done := make(chan struct{})
		go func() {
			b, err := bf.ReadWait(1)
			_ = b
			_ = err
			close(done)
		}()
		bf.Write([]byte{1}) // exactly one commit: if its broadcast falls between the stale read and Lock, the reader sleeps forever
		select {
		case <-done:
		case <-time.After(500 * time.Millisecond):
			t.Fatalf("iteration %d: ReadWait(1) still blocked 500ms after the byte was committed", iter)
		}
	}
}
